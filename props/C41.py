"""C41 — Interpolation tables are exact for multilinear functions.

The adaptive table computes vertex values on demand and keeps them in a SparseNdArray;
its answer at a point depends on which queries came before.  That clause of C41 is
history-dependent and is what this machine decides: a seeded sequence of
interpolate/gradient batches (revisiting cells, straddling cell boundaries, repeating
points) on the adaptive table, with the static table and the exact multilinear function
as reference models.  (Static table == exact function is checked on the same points; the
technique adds nothing over input sampling for that part and it is reported as such.)
"""

from __future__ import annotations

import itertools

import numpy as np

import porepy as pp
from engines.history import Keeper, Op, run_history
from simkit.runner import Workload
from simkit.trace import Trace, Violation

ID = "C41"
LEVEL = "exploration"
RULE = (
    "each run = one box/resolution/multilinear function (1-3 parameters) and a seeded history of interpolate(batch) and "
    "gradient(batch, axis) queries on one AdaptiveInterpolationTable whose cache grows with the history; every answer is "
    "compared with the static table and the exact function, and the cache invariants are checked after every query. "
    "Non-trivial = at least 3 query batches of which one revisits cached vertices; distinct = distinct sequence of "
    "(query kind, axis, cache-hit class, on-grid-line flag)."
    ' Since the second session: the function-less external-values protocol (quadrature_points_from_coordinates / assign_values), vector-valued functions, the default base point, functions that raise outside the box with queries that stray there, results kept by the caller, another table queried in between, printing, resolutions in narrow integer types, a few long histories on finer tables.'
)
STATE_ABSTRACTION = "(number of cached vertices capped at 40, last query kind, cache-hit class of last batch in {cold, partial, warm})"
ASSUMPTIONS = [
    "dyadic family: box, resolution and points are multiples of 1/8 (exact arithmetic), points may lie on grid lines, vertices and the box boundary; "
    "float family: arbitrary floats, points kept a relative 1e-6 away from grid lines (the rounding caveat of the class docstring)",
    "comparison tolerance 1e-9 * (1 + max |f| over the box vertices)",
    "gradient exactness is demanded for linear functions only (as stated); for general multilinear functions adaptive == static is demanded",
]
PROBES = ["dim1", "dim2", "dim3", "point_on_vertex", "point_on_grid_line", "point_on_upper_boundary", "point_on_lower_boundary", "batch_revisits_cell",
          "warm_batch", "partial_batch", "gradient_query", "linear_function", "shifted_base_point", "negative_indices", "query_buffer_reused_in_place", "external_values_mode", "known_vertices_reassigned", "vector_valued_function", "function_defined_on_box_only", "rejected_query_outside_box", "twin_instance_used_in_between", "long_history", "default_base_point", "printed_in_between", "resolution_in_narrow_integer_type"]


def make_function(ch, d, linear):
    """Multilinear f(x) = sum_S c_S prod_{i in S} x_i with small integer coefficients."""
    subsets = [s for r in range(d + 1) for s in itertools.combinations(range(d), r)]
    if linear:
        subsets = [s for s in subsets if len(s) <= 1]
    coef = {s: float(ch.rng(-4, 4)) for s in subsets}
    if all(c == 0 for c in coef.values()):
        coef[subsets[-1]] = 1.0

    def f(*x):
        x = [np.asarray(xi, dtype=float) for xi in x]
        tot = 0.0
        for s, c in coef.items():
            term = c
            for i in s:
                term = term * x[i]
            tot = tot + term
        return tot

    def grad(axis, *x):
        x = [np.asarray(xi, dtype=float) for xi in x]
        tot = 0.0
        for s, c in coef.items():
            if axis not in s:
                continue
            term = c
            for i in s:
                if i != axis:
                    term = term * x[i]
            tot = tot + term
        return tot

    return f, grad, {",".join(map(str, s)): c for s, c in coef.items() if c}


def make_vector_function(ch, d, linear, vdim):
    """vdim independent multilinear components; scalar arguments give a (vdim,) array, array arguments (vdim, n)."""
    comps = [make_function(ch, d, linear) for _ in range(vdim)]

    def f(*x):
        return np.array([np.asarray(c[0](*x), dtype=float) * np.ones(np.shape(x[0])) for c in comps])

    def grad(axis, *x):
        return np.array([np.asarray(c[1](axis, *x), dtype=float) * np.ones(np.shape(x[0])) for c in comps])

    return f, grad, [c[2] for c in comps]


def run_history_c41(ch, tr: Trace) -> None:
    with ch.span("config"):
        d = ch.rng(1, 3)
        dyadic = ch.flag()
        linear = ch.flag(1, 3)
        long_run = ch.flag(1, 40)  # a few long histories on finer tables (hundreds of cached vertices)
        npt = np.array([ch.rng(2, 5) if not long_run else ch.rng(6, 12) for _ in range(d)])
        if dyadic:
            low = np.array([ch.rng(-16, 8) / 8.0 for _ in range(d)])
            h = np.array([ch.choice([0.125, 0.25, 0.5, 1.0]) for _ in range(d)])
        else:
            low = np.array([-2.0 + 4.0 * ch.unit() for _ in range(d)])
            h = np.array([0.05 + ch.unit() for _ in range(d)])
        shift = np.array([ch.rng(-2, 2) if ch.flag(1, 3) else 0 for _ in range(d)])
        # the documented default of the adaptive table's base point is the origin: used when the origin is a grid point
        default_base = ch.flag(1, 6)
        if default_base:
            low = -shift * h
        high = low + h * (npt - 1)
        f, gradf, coefs = make_function(ch, d, linear)
        # vector-valued functions (constructor argument ``dim``, "dimension of the field to interpolate")
        vdim = ch.choice([1, 1, 1, 2, 3])
        if vdim > 1:
            f, gradf, coefs = make_vector_function(ch, d, linear, vdim)
        # "external" mode: the adaptive table has no function; the caller asks which vertices a query needs
        # (quadrature_points_from_coordinates), computes them and feeds them back (assign_values) before querying
        external = ch.flag(1, 3)
        # the user's function may be defined on the box only and raise elsewhere; a query that strays outside is then
        # rejected with the function's own exception - and must not poison later queries inside the box
        guarded = (not external) and ch.flag(1, 3)
    tr.probe(f"dim{d}")
    if external:
        tr.probe("external_values_mode")
    if linear:
        tr.probe("linear_function")
    base = low + shift * h  # a grid point of the same Cartesian grid
    if np.any(shift != 0):
        tr.probe("shifted_base_point")
    if np.any(shift > 0):
        tr.probe("negative_indices")
    vv = ("_vector_valued" if vdim > 1 else "") + ("_default_base_point" if default_base else "")
    if vdim > 1:
        tr.probe("vector_valued_function")
    # the resolution may come in any integer width (int8 holds up to 127 points per axis, but not their products)
    npt_dtype = ch.choice([np.int64, np.int64, np.int32, np.int16, np.int8])
    if npt_dtype is not np.int64:
        tr.probe("resolution_in_narrow_integer_type")
    static = pp.InterpolationTable(low, high, npt.astype(npt_dtype), f, dim=vdim)
    f_plain = f

    class OutsideBox(Exception):
        pass

    def f_guarded(*x):
        for i in range(d):
            xi = np.asarray(x[i], dtype=float)
            if np.any(xi < low[i] - 1.25 * h[i]) or np.any(xi > high[i] + 1.25 * h[i]):  # one cell of slack: the adaptive table has no box and touches the next vertex for points on the boundary
                raise OutsideBox(f"function evaluated outside its box along axis {i}")
        return f_plain(*x)

    if guarded:
        tr.probe("function_defined_on_box_only")
    try:
        if default_base:
            tr.probe("default_base_point")
            adaptive = pp.AdaptiveInterpolationTable(h.copy(), function=None if external else (f_guarded if guarded else f), dim=vdim)
        else:
            adaptive = pp.AdaptiveInterpolationTable(h.copy(), base_point=base.copy(), function=None if external else (f_guarded if guarded else f), dim=vdim)
    except Exception as e:  # noqa: BLE001
        raise Violation("adaptive_answers_every_point_in_box", f"constructing the adaptive table for a {vdim}-valued function raised {e!r}", "adaptive_constructor_raised")
    verts = np.array(list(itertools.product(*[np.linspace(low[i], high[i], npt[i]) for i in range(d)]))).T
    scale = 1.0 + float(np.max(np.abs(f(*verts))))
    tol = 1e-9 * scale
    tr.emit("config", d, "dyadic" if dyadic else "float", low.tolist(), h.tolist(), npt.tolist(), shift.tolist(), coefs)
    visited_cells: set = set()
    keeper = Keeper(lambda label, where: Violation("table_exact_for_multilinear", f"the array returned by {label} changed under the caller's hands during {where}", "returned_array_changed_later"), limit=4)
    buf = [None]  # the caller's query buffer, possibly reused in place between calls

    def draw_points(n):
        cols = []
        flags = {"vertex": False, "line": False, "upper": False, "lower": False, "revisit": False}
        for _ in range(n):
            mode = ch.draw(6)
            x = np.zeros(d)
            if visited_cells and mode == 0:
                cell = ch.choice(sorted(visited_cells))
                flags["revisit"] = True
            else:
                cell = tuple(ch.draw(int(npt[i]) - 1) for i in range(d))
            on_line = 0
            for i in range(d):
                if dyadic:
                    k = ch.rng(0, 8)  # eighths of the cell, both ends included
                    if mode == 1:
                        k = ch.choice([0, 8])
                    x[i] = low[i] + h[i] * cell[i] + h[i] * k / 8.0
                    if k in (0, 8):
                        on_line += 1
                else:
                    t = 1e-6 + (1 - 2e-6) * ch.unit()
                    x[i] = low[i] + h[i] * (cell[i] + t)
                    x[i] = min(max(x[i], low[i]), high[i])
            if dyadic and mode == 2:
                j = ch.draw(d)
                x[j] = high[j]
                on_line += 1
            if dyadic:
                if on_line == d:
                    flags["vertex"] = True
                elif on_line:
                    flags["line"] = True
                if np.any(x == high):
                    flags["upper"] = True
                if np.any(x == low):
                    flags["lower"] = True
            visited_cells.add(cell)
            cols.append(x)
        return np.array(cols).T, flags

    def cache_invariants(where):
        C = adaptive._table._coords
        P = adaptive._pt
        if C.shape[1] != P.shape[1]:
            raise Violation("cache_consistent", f"after {where}: {C.shape[1]} cached index columns but {P.shape[1]} cached coordinates")
        if C.shape[1]:
            if np.unique(C, axis=1).shape[1] != C.shape[1]:
                raise Violation("cache_consistent", f"after {where}: duplicate vertex indices in the cache")
            exp = adaptive._base_point + adaptive._h * C
            if not np.allclose(P, exp, rtol=0, atol=1e-9 * (1 + np.max(np.abs(exp)))):
                raise Violation("cache_consistent", f"after {where}: cached coordinates do not match base + h * index column by column")
            vals = adaptive._table._values
            ex = np.asarray(f(*P), dtype=float).reshape(vals.shape)
            if not np.allclose(vals, ex, rtol=0, atol=tol):
                raise Violation("cache_consistent", f"after {where}: cached vertex values differ from the function at the cached coordinates")

    def feed(x):
        """External mode: the documented protocol that precedes a query."""
        if not external:
            return
        ch.begin("feed")
        try:
            keep_known = ch.flag(1, 3)
            # without indices the table locates the vertices by floor((x - base) / h): exact only in dyadic arithmetic
            # (the docstring's own caveat: 'strongly recommended that the indices are also provided')
            with_indices = not (ch.flag(1, 4) and dyadic)
            one_by_one = ch.flag(1, 5)
        finally:
            ch.end()
        try:
            coord, ind = adaptive.quadrature_points_from_coordinates(x, remove_known_points=not keep_known)
            vals = np.atleast_1d(f(*coord)) if coord.shape[1] else np.empty(0)  # (n,) or (vdim, n)
            if keep_known and adaptive._table._coords.shape[1]:
                tr.probe("known_vertices_reassigned")
            if coord.shape[1] == 0:
                return
            if one_by_one:
                for c in range(coord.shape[1]):
                    adaptive.assign_values(vals[..., c:c + 1], coord[:, c].reshape((-1, 1)), indices=ind[:, c].reshape((-1, 1)) if with_indices else None)
            else:
                adaptive.assign_values(vals, coord, ind if with_indices else None)
        except Exception as e:  # noqa: BLE001
            raise Violation("adaptive_answers_every_point_in_box", f"feeding the vertices needed for {x.T.tolist()} (keep_known={keep_known}, indices={with_indices}, one_by_one={one_by_one}) raised {e!r}", "adaptive_feed_raised" + vv)
        tr.op("feed", "ok", int(coord.shape[1]), keep_known, with_indices, one_by_one)

    def hit_class(before, after, x):
        if after == before:
            return "warm"
        return "cold" if before == 0 else "partial"

    def op_interp():
        n = ch.rng(1, 5)
        x, fl = draw_points(n)
        arg = x  # points are always passed as a (parameters x points) array
        if buf[0] is not None and buf[0].shape == x.shape and ch.flag(1, 2):
            # the caller reuses its query buffer: same ndarray object, updated in place (x += dx in a solver loop)
            buf[0][...] = x
            arg = buf[0]
            tr.probe("query_buffer_reused_in_place")
        else:
            buf[0] = x.copy()
            arg = buf[0]
        before = adaptive._table._coords.shape[1]
        feed(x)
        try:
            ya = adaptive.interpolate(arg)
        except Exception as e:  # noqa: BLE001
            raise Violation("adaptive_answers_every_point_in_box", f"adaptive.interpolate({x.T.tolist()}) raised {e!r}", "adaptive_interpolate_raised" + vv)
        after = adaptive._table._coords.shape[1]
        try:
            ys = static.interpolate(arg)
        except Exception as e:  # noqa: BLE001
            raise Violation("static_answers_every_point_in_box", f"static.interpolate({x.T.tolist()}) raised {e!r}", "static_interpolate_raised")
        keeper.verify(f"interpolate({x.T.tolist()})")
        keeper.keep(ya, f"adaptive.interpolate({x.T.tolist()})")
        keeper.keep(ys, f"static.interpolate({x.T.tolist()})")
        ye = np.atleast_1d(f(*x)).reshape(-1)
        hc = hit_class(before, after, x)
        for k, v in fl.items():
            if v:
                tr.probe({"vertex": "point_on_vertex", "line": "point_on_grid_line", "upper": "point_on_upper_boundary", "lower": "point_on_lower_boundary", "revisit": "batch_revisits_cell"}[k])
        if hc != "cold":
            tr.probe(hc + "_batch")
        ya, ys = np.asarray(ya).reshape(-1), np.asarray(ys).reshape(-1)
        if ya.shape != ye.shape or ys.shape != ye.shape or not np.allclose(ya, ys, rtol=0, atol=tol):
            raise Violation("adaptive_equals_static", f"interpolate at {x.T.tolist()} ({hc} cache): adaptive {ya.tolist()} vs static {ys.tolist()} (exact {ye.tolist()})",
                            "adaptive_equals_static" + ("_vector_valued" if vdim > 1 else ""))
        if not np.allclose(ys, ye, rtol=0, atol=tol):
            raise Violation("table_exact_for_multilinear", f"interpolate at {x.T.tolist()}: static table {ys.tolist()} vs exact {ye.tolist()}", "static_not_exact")
        tr.op("interpolate", "ok", x.T.tolist(), hc, bool(fl["vertex"] or fl["line"]))
        tr.state((min(after, 40), "interp", hc))
        cache_invariants("interpolate")

    def op_grad():
        n = ch.rng(1, 4)
        x, fl = draw_points(n)
        axis = ch.draw(d)
        if buf[0] is not None and buf[0].shape == x.shape and ch.flag(1, 2):
            buf[0][...] = x
            tr.probe("query_buffer_reused_in_place")
        else:
            buf[0] = x.copy()
        xq = buf[0]
        before = adaptive._table._coords.shape[1]
        # A derivative at a point exactly on a grid line of the differentiated axis is one-sided and, for a piecewise
        # linear interpolant of a multilinear function, still exact; on the upper box boundary the base cell does not exist.
        feed(x)
        try:
            ga = adaptive.gradient(xq, axis)
        except Exception as e:  # noqa: BLE001
            raise Violation("adaptive_answers_every_point_in_box", f"adaptive.gradient({x.T.tolist()}, axis={axis}) raised {e!r}", "adaptive_gradient_raised" + vv)
        after = adaptive._table._coords.shape[1]
        try:
            gs = static.gradient(xq, axis)
        except Exception as e:  # noqa: BLE001
            on_upper = bool(dyadic and np.any(x == high.reshape((-1, 1))))
            raise Violation("static_answers_every_point_in_box", f"static.gradient({x.T.tolist()}, axis={axis}) raised {e!r}", "static_gradient_raised_on_upper_boundary" if on_upper else "static_gradient_raised")
        keeper.verify(f"gradient({x.T.tolist()}, axis={axis})")
        keeper.keep(ga, f"adaptive.gradient({x.T.tolist()}, axis={axis})")
        keeper.keep(gs, f"static.gradient({x.T.tolist()}, axis={axis})")
        ge = (np.atleast_1d(gradf(axis, *x)) * np.ones(n)).reshape(-1)
        hc = hit_class(before, after, x)
        tr.probe("gradient_query")
        ga, gs = np.asarray(ga).reshape(-1), np.asarray(gs).reshape(-1)
        on_upper = bool(dyadic and np.any(x == high.reshape((-1, 1))))
        gtol = tol / float(np.min(h)) * 4
        if not np.allclose(ga, gs, rtol=0, atol=gtol):
            raise Violation("adaptive_equals_static", f"gradient axis {axis} at {x.T.tolist()} ({hc} cache): adaptive {ga.tolist()} vs static {gs.tolist()} (exact {ge.tolist()})",
                            "gradient_mismatch_on_upper_boundary" if on_upper else "gradient_mismatch")
        if linear and not np.allclose(gs, ge, rtol=0, atol=gtol):
            raise Violation("gradient_exact_for_linear", f"gradient axis {axis} at {x.T.tolist()}: table {gs.tolist()} vs exact {ge.tolist()}",
                            "gradient_inexact_on_upper_boundary" if on_upper else "gradient_inexact")
        tr.op("gradient", "ok", x.T.tolist(), axis, hc)
        tr.state((min(after, 40), "grad", hc))
        cache_invariants("gradient")

    def op_outside():
        """A batch with one point whose cell lies outside the box (the guarded function raises there) among valid points."""
        n = ch.rng(1, 3)
        x, _ = draw_points(n)
        j = ch.draw(n)
        ax = ch.draw(d)
        x[ax, j] = (high[ax] + (2.5 + ch.unit()) * h[ax]) if ch.flag() else (low[ax] - (2.5 + ch.unit()) * h[ax])
        try:
            if ch.flag(2, 3):
                adaptive.interpolate(x.copy())
            else:
                adaptive.gradient(x.copy(), ch.draw(d))
        except OutsideBox:
            tr.fault("rejected-call", "query_outside_box")
            tr.probe("rejected_query_outside_box")
            tr.op("outside", "rejected", x.T.tolist(), changing=False)
            cache_invariants("a query rejected by the user's function (point outside the box)")
            return
        except Exception as e:  # noqa: BLE001  any other error is a rejection too; nothing is demanded of this call itself
            tr.op("outside", "raised", type(e).__name__, changing=False)
            cache_invariants("a query outside the box that raised")
            return
        tr.op("outside", "answered", x.T.tolist(), changing=False)

    twin = [None]

    def op_twin_noise():
        """Another adaptive table (other function, same grid) queried in between: tables must not share state."""
        if twin[0] is None:
            twin[0] = pp.AdaptiveInterpolationTable(h.copy(), base_point=base.copy(), function=lambda *x: -3.5 + 0.0 * np.asarray(x[0], dtype=float) if vdim == 1 else np.full((vdim,) + np.shape(x[0]), -3.5), dim=vdim)
        x, _ = draw_points(ch.rng(1, 3))
        twin[0].interpolate(x.copy())
        tr.probe("twin_instance_used_in_between")
        tr.op("twin", "ok", x.T.tolist(), changing=False)
        cache_invariants("queries on another adaptive table")

    def op_repr():
        repr(adaptive)
        str(adaptive)
        repr(static)
        tr.probe("printed_in_between")
        tr.op("repr", "ok", changing=False)
        cache_invariants("printing the tables")

    ops = [Op("repr", 1, op_repr), Op("interpolate", 5, op_interp, core=True), Op("gradient", 3, op_grad), Op("outside", 1, op_outside, enabled=lambda: guarded), Op("twin_noise", 1, op_twin_noise)]
    if long_run:
        tr.probe("long_history")
    run_history(ch, tr, ops, 3 if not long_run else 40, 16 if not long_run else 120)
    tr.emit("end", int(adaptive._table._coords.shape[1]))


def _nontrivial_hint():
    return None


WORKLOADS = [
    Workload(
        name="history", run=run_history_c41, runs={"quick": 30_000, "thorough": 800_000}, chunk=200, run_timeout=60.0,
        real=["porepy.utils.interpolation_tables.AdaptiveInterpolationTable (interpolate, gradient, _fill_values, quadrature_points_from_coordinates, _find_base_vertex with safeguarding)",
              "porepy.utils.interpolation_tables.InterpolationTable", "porepy.utils.array_operations.SparseNdArray / intersect_sets (the cache)"],
        stub=["none (reference models: the static table and the exact multilinear function)"],
    ),
]
DETERMINISM_RUNS = 600

MANIFEST = {
    "engine": "history",
    "technique": "deterministic simulation (history-only): seeded search over query-batch sequences on the adaptive (caching) table, compared query by query with the static table and the exact multilinear function, cache invariants after every query; minimised replay",
    "design_ref": "DESIGN.md section 5 (C41)",
    "level_text": (
        "Seeded exploration of query histories: the adaptive table's answers must not depend on which queries came before. "
        "Every answer is compared with the static table and the exact function; cached indices/coordinates/values are checked "
        "after every query. Thousands of histories per quick run. Sampling, not proof; only the adaptive-cache clause is "
        "history-dependent, the static-table exactness is checked on the same points as a by-product."
    ),
    "level_note": "Trusted: the exact multilinear evaluator, tolerance 1e-9 relative to the function scale, dyadic grids for on-grid-line points.",
}
