"""C47 — Fracture network and data files round-trip.

Engine B over a tiny "directory" of 1-3 paths in the run's scratch root: real
``FractureNetwork2d/3d.to_csv``, ``network_2d/3d_from_csv``, ``export_data_to_txt``,
``read_data_from_txt`` on real files behind the file seam.  The seed decides which object
is written to which path in which order (overwrite histories: longer then shorter objects,
other kinds of object on the same path), when a path is read, and at which file-seam
crossing an I/O error is injected.

Honest note (DESIGN.md section 5): the statement is silent about failed writes, so the
fault dimension is narrow: a failed write makes the path *indeterminate* until the next
successful write and nothing else is relaxed.
"""

from __future__ import annotations

import errno
import os
from pathlib import Path

import numpy as np

import porepy as pp
from porepy.utils.txt_io import TxtData, export_data_to_txt, read_data_from_txt
from engines.history import Op, run_history
from simkit import envseam
from simkit.fsseam import FsSeam
from simkit.runner import Workload
from simkit.trace import Trace, Violation

ID = "C47"
LEVEL = "exploration"
RULE = (
    "each run = one seeded history of writes (2d network csv with/without header, 3d network csv with/without domain line, txt "
    "tables with 1-4 columns and 1-12 rows in lossless or default format), overwrites and reads on 1-3 real files, with I/O "
    "errors injected at drawn file-seam crossings; a read after a successful write must return the last object written to "
    "that path. Non-trivial = at least 3 applied writes or one fired I/O error; distinct = distinct sequence of (op kind, "
    "outcome, object kind, size class, path)."
    ' Since the second session: georeferenced 3-d networks, tagged 2-d fractures, multi-scale 2-d networks, file names with inner dots, the default txt file name, txt exports rejected for arrays of unequal length onto existing files.'
)
STATE_ABSTRACTION = "(per path: kind of last successfully written object or 'indeterminate'/'absent', size class)"
ASSUMPTIONS = [
    "2d points lie on a lattice of spacing 1/16 perturbed by < 1e-3, i.e. far apart compared with the reader's merge tolerance 1e-8",
    "3d fractures are convex planar polygons with 3-6 vertices",
    "txt tables have at least one row and one column (np.loadtxt cannot represent an empty table); column names are identifiers",
    "default '%2.2e' format is compared within half a unit of the last printed digit; '%.17e' and csv are compared exactly",
    "after an injected I/O error the path is indeterminate until the next successful write; nothing else is relaxed",
]
PROBES = ["overwrite_longer_then_shorter", "overwrite_other_kind", "txt_single_column", "txt_single_row", "txt_1x1", "txt_default_format",
          "net2d_empty", "net2d_no_header", "net3d_no_domain", "net3d_with_domain", "io_error_on_open", "io_error_on_write", "read_after_failed_write_skipped",
          "three_paths", "polygon_6_vertices", "txt_integer_column", "txt_integer_first_then_float", "net2d_constrained_before_write", "net3d_georeferenced_coordinates", "net2d_tagged_fractures", "file_names_with_inner_dots", "rejected_txt_export", "rejected_export_onto_existing_file", "net2d_constrained_has_sub_tolerance_features_skipped", "net2d_multi_scale", "txt_default_file_name"]


# --------------------------------------------------------------------------------------
def gen_net2d(ch):
    n = ch.rng(0, 6)
    used = set()
    segs = []
    for _ in range(n):
        pts = []
        while len(pts) < 2:
            ij = (ch.rng(0, 15), ch.rng(0, 15))
            if ij in used:
                continue
            used.add(ij)
            pts.append([ij[0] / 16.0 + ch.draw(1000) * 1e-6, ij[1] / 16.0 + ch.draw(1000) * 1e-6])
        segs.append(np.array(pts).T)  # 2 x 2: columns are the endpoints
    return segs


def canon2d(pts, edges):
    out = []
    for e in edges.T:
        a = tuple(float(x) for x in pts[:, int(e[0])])
        b = tuple(float(x) for x in pts[:, int(e[1])])
        out.append(tuple(sorted((a, b))))
    return sorted(out)


def gen_net3d(ch, geo=False):
    """``geo``: metre-sized fractures in georeferenced coordinates (easting ~4e5, northing ~6.7e6): neighbouring
    vertices differ by a relative 1e-7, far above the resolution of the csv format, far below sloppy relative tolerances."""
    n = ch.rng(1, 4)
    fr = []
    origin = np.array([4.0e5, 6.7e6, 100.0]) if geo else np.zeros(3)
    for _ in range(n):
        k = ch.rng(3, 6)
        # convex polygon: points on an ellipse at strictly increasing angles
        ang = np.sort(np.array([(j + 0.15 + 0.7 * ch.unit()) * 2 * np.pi / k for j in range(k)]))
        a, b = 0.5 + ch.unit(), 0.5 + ch.unit()
        u = np.array([1.0, 0.0, 0.0])
        v = np.array([0.0, 1.0, 0.0])
        rot = ch.draw(4)
        if rot == 1:
            u, v = np.array([0.0, 1.0, 0.0]), np.array([0.0, 0.0, 1.0])
        elif rot == 2:
            u, v = np.array([1.0, 0.0, 0.0]), np.array([0.0, 0.6, 0.8])
        elif rot == 3:
            u, v = np.array([0.6, 0.8, 0.0]), np.array([0.0, 0.0, 1.0])
        c = origin + np.array([ch.unit() * 4, ch.unit() * 4, ch.unit() * 4])
        P = np.array([c + a * np.cos(t) * u + b * np.sin(t) * v for t in ang]).T
        fr.append(P)
    return fr


def canon_poly(P):
    """Vertices up to cyclic rotation and orientation."""
    v = [tuple(float(x) for x in P[:, j]) for j in range(P.shape[1])]
    k = len(v)
    cands = []
    for seq in (v, v[::-1]):
        for s in range(k):
            cands.append(tuple(seq[s:] + seq[:s]))
    return min(cands)


def gen_txt(ch):
    ncol = ch.rng(1, 4)
    nrow = ch.rng(1, 12) if not ch.flag(1, 4) else 1
    lossless = ch.flag(2, 3)
    names = ch.shuffle(["alpha", "b", "c_2", "delta"])[:ncol]
    cols = []
    for _ in range(ncol):
        kind = ch.draw(3)
        if kind == 0:
            arr = np.array([ch.rng(-50, 50) / 4.0 for _ in range(nrow)])
        elif kind == 1:
            arr = np.array([(ch.unit() - 0.5) * 10.0 ** ch.rng(-6, 6) for _ in range(nrow)])
        elif kind == 2 and ch.flag():
            arr = np.array([ch.rng(-3, 40) for _ in range(nrow)], dtype=np.int64)  # e.g. a cell counter
        else:
            arr = np.array([float(ch.rng(-3, 3)) for _ in range(nrow)])
        cols.append(arr)
    return names, cols, lossless


def run_history_c47(ch, tr: Trace) -> None:
    with ch.span("config"):
        npaths = ch.rng(1, 3)
        p_fault = ch.choice([0, 0, 1, 3])  # /10 per write operation
        # file names: plain, or names whose last dot is not an extension separator (refinement levels, variants)
        name_family = ch.choice([0, 0, 1, 2])
    if npaths == 3:
        tr.probe("three_paths")
    with envseam.scratch() as root:
        names_by_family = {0: ["f0.dat", "f1.dat", "f2.dat"], 1: ["network_dx_0.5", "network_dx_0.25", "network_dx_0.125"],
                           2: ["fractures.coarse", "fractures.fine", "fractures.coarse.csv"]}
        paths = [Path(root) / nm for nm in names_by_family[name_family][:npaths]]
        if name_family:
            tr.probe("file_names_with_inner_dots")
        default_txt = Path(root) / "out.txt"  # cwd is the scratch root (envseam.scratch)
        model: dict = {p: ("absent", None, 0) for p in paths + [default_txt]}  # kind, payload, size
        prev_size: dict = {}
        seam = FsSeam(root, tr)
        tr.emit("config", npaths, p_fault)

        def arm_fault():
            """Maybe arm one I/O error a few crossings ahead; returns True if armed."""
            if p_fault and ch.flag(p_fault, 10):
                ahead = ch.rng(1, 6)
                code = ch.choice([errno.ENOSPC, errno.EIO, errno.EACCES])
                seam.arm_io_error(seam.n + ahead, code)
                return True
            return False

        def finish_write(p, kind, payload, size, do_write):
            armed = arm_fault()
            n_fired = len(seam.fired)
            try:
                do_write()
            except OSError as e:
                if len(seam.fired) == n_fired:
                    raise Violation("write_completes", f"writing a {kind} object to {p.name} raised {e!r} without an injected fault")
                f = seam.fired[-1]
                tr.fault("io-error", f[2], f[3], f[4])
                tr.probe("io_error_on_open" if f[2] == "open" else "io_error_on_write")
                model[p] = ("indeterminate", None, 0)
                tr.op("write_" + kind, "io-error", p.name, size)
                seam.plan.clear()
                return
            seam.plan.clear()
            old = model[p]
            if old[0] not in ("absent", "indeterminate"):
                if old[0] != kind:
                    tr.probe("overwrite_other_kind")
                if old[2] > size and prev_size.get(p, 0) < old[2]:
                    tr.probe("overwrite_longer_then_shorter")
                prev_size[p] = old[2]
            model[p] = (kind, payload, size)
            tr.op("write_" + kind, "ok", p.name, size)
            tr.state(tuple((model[q][0], min(model[q][2], 3)) for q in paths))

        # ---- writes -------------------------------------------------------------------
        def op_write_2d():
            p = ch.choice(paths)
            segs = gen_net2d(ch)
            if ch.flag(1, 8):
                # a multi-scale network: kilometre-sized fractures next to one of a few micrometres at the origin (well
                # above the reader's absolute tolerance 1e-8, far below any tolerance scaled by the extent of the network)
                far = [np.array([[1000.0 + 37.0 * j, 1900.0 - 11.0 * j], [1500.0 - 13.0 * j, 1200.0 + 29.0 * j]]) for j in range(ch.rng(1, 3))]
                tiny = np.array([[0.0, 5.0e-6], [0.0, 0.0]]) if ch.flag() else np.array([[0.0, 0.0], [1.0e-6, 7.0e-6]])
                segs = far + [tiny]
                tr.probe("net2d_multi_scale")
            header = ch.flag(2, 3)
            # user tags on some or all fractures (extra rows of the network's edge array; the csv holds geometry only)
            tag_mode = ch.draw(4)  # 0, 1: none; 2: all tagged; 3: partly tagged
            fracs = []
            for j, sg in enumerate(segs):
                if tag_mode == 2 or (tag_mode == 3 and j % 2 == 0):
                    fracs.append(pp.LineFracture(sg, tags=[ch.rng(1, 5)] + ([ch.rng(1, 5)] if ch.flag(1, 3) else [])))
                else:
                    fracs.append(pp.LineFracture(sg))
            if segs and tag_mode >= 2:
                tr.probe("net2d_tagged_fractures")
            dom = pp.Domain({"xmin": -1, "xmax": 2, "ymin": -1, "ymax": 2}) if (not segs or float(np.max([sg.max() for sg in segs])) < 10.0) else pp.Domain({"xmin": -1, "xmax": 3000, "ymin": -1, "ymax": 3000})
            net = pp.create_fracture_network(fracs, dom) if fracs else pp.fracs.fracture_network_2d.FractureNetwork2d(domain=dom)
            if segs and float(np.max([sg.max() for sg in segs])) < 10.0 and ch.flag(1, 3):
                # constrain the network to a smaller domain before writing: fractures crossing the boundary are cut (and the
                # domain edges may be added); what is written must be the network as it is now
                small = pp.Domain({"xmin": 0.1, "xmax": 0.6, "ymin": 0.1, "ymax": 0.6})
                try:
                    net.impose_external_boundary(small, add_domain_edges=ch.flag())
                    tr.probe("net2d_constrained_before_write")
                except Exception:  # noqa: BLE001  (degenerate cuts are not the point here)
                    net = pp.create_fracture_network(fracs, dom)
                # Cutting at the boundary can create points closer to each other than the tolerance within which a
                # network identifies points (a fracture leaving the box 4e-6 from a corner): the reader, which builds a
                # network again, merges them.  Such sub-tolerance features are not "the same fractures" in any exact
                # sense; networks that have them are not written (found by a thorough run, see DESIGN section 7).
                P = net._pts
                if P.shape[1] > 1:
                    dist = np.sqrt(((P[:, :, None] - P[:, None, :]) ** 2).sum(axis=0)) + np.eye(P.shape[1])
                    if dist.min() < 1.0e-3:
                        tr.probe("net2d_constrained_has_sub_tolerance_features_skipped")
                        net = pp.create_fracture_network(fracs, dom)
            payload = (canon2d(net._pts, net._edges), header)
            if not segs:
                tr.probe("net2d_empty")
            if not header:
                tr.probe("net2d_no_header")
            finish_write(p, "net2d", payload, len(segs), lambda: net.to_csv(p, with_header=header))

        def op_write_3d():
            p = ch.choice(paths)
            geo = ch.flag(1, 4)
            polys = gen_net3d(ch, geo)
            with_domain = ch.flag()
            fracs = [pp.PlaneFracture(P, check_convexity=False) for P in polys]  # sympy-based convexity check is slow and not part of the property
            box = {"xmin": -2.0, "xmax": 7.0, "ymin": -2.0, "ymax": 7.0, "zmin": -2.0, "zmax": 7.5}
            if geo:
                box = {"xmin": 4.0e5 - 2.0, "xmax": 4.0e5 + 7.0, "ymin": 6.7e6 - 2.0, "ymax": 6.7e6 + 7.0, "zmin": 98.0, "zmax": 107.5}
                tr.probe("net3d_georeferenced_coordinates")
            dom = pp.Domain(box)
            net = pp.create_fracture_network(fracs, dom)
            payload = (sorted(canon_poly(f.pts) for f in net.fractures), box if with_domain else None)
            tr.probe("net3d_with_domain" if with_domain else "net3d_no_domain")
            if any(P.shape[1] == 6 for P in polys):
                tr.probe("polygon_6_vertices")
            finish_write(p, "net3d", payload, len(polys), lambda: net.to_csv(p, domain=dom if with_domain else None))

        def op_write_txt():
            p = ch.choice(paths + [default_txt]) if ch.flag(1, 6) else ch.choice(paths)
            names, cols, lossless = gen_txt(ch)
            fmt = "%.17e" if lossless else "%2.2e"
            data = [TxtData(nm, c.copy(), fmt) if lossless else TxtData(nm, c.copy()) for nm, c in zip(names, cols)]
            if len(cols) == 1:
                tr.probe("txt_single_column")
            if cols[0].size == 1:
                tr.probe("txt_single_row")
            if len(cols) == 1 and cols[0].size == 1:
                tr.probe("txt_1x1")
            if not lossless:
                tr.probe("txt_default_format")
            if any(c.dtype.kind == "i" for c in cols):
                tr.probe("txt_integer_column")
                if cols[0].dtype.kind == "i" and any(c.dtype.kind == "f" for c in cols[1:]):
                    tr.probe("txt_integer_first_then_float")
            payload = (names, [c.astype(float) for c in cols], lossless)
            if p is default_txt:
                # the documented default file name, "out.txt" relative to the directory the caller is in *now*
                tr.probe("txt_default_file_name")
                finish_write(p, "txt", payload, cols[0].size * len(cols), lambda: export_data_to_txt(data))
            else:
                finish_write(p, "txt", payload, cols[0].size * len(cols), lambda: export_data_to_txt(data, p))

        def op_write_txt_rejected():
            """Arrays of unequal length: the documented ValueError.  The path keeps what was written to it before."""
            p = ch.choice(paths)
            names, cols, lossless = gen_txt(ch)
            if len(cols) < 2:
                return
            cols = [c.copy() for c in cols]
            cols[-1] = np.concatenate([cols[-1], cols[-1][:1]])  # one value too many in the last array
            data = [TxtData(nm, c) for nm, c in zip(names, cols)]
            try:
                export_data_to_txt(data, p)
            except ValueError:
                tr.fault("rejected-call", "txt_unequal_lengths")
                tr.probe("rejected_txt_export")
                tr.op("write_txt", "rejected", p.name, changing=False)
                if model[p][0] not in ("absent", "indeterminate"):
                    tr.probe("rejected_export_onto_existing_file")
                    op_read(p)  # the earlier successful export must still be there
                return
            raise Violation("invalid_call_rejected", f"export_data_to_txt with arrays of lengths {[c.size for c in cols]} was accepted")

        # ---- read ---------------------------------------------------------------------
        def op_read(p=None):
            if p is None:
                p = ch.choice(paths + ([default_txt] if model[default_txt][0] != "absent" else []))
            kind, payload, size = model[p]
            if kind == "absent":
                return
            if kind == "indeterminate":
                tr.probe("read_after_failed_write_skipped")
                tr.op("read", "skipped-indeterminate", p.name, changing=False)
                return
            try:
                if kind == "net2d":
                    segs, header = payload
                    net = pp.fracture_importer.network_2d_from_csv(p, skip_header=1 if header else 0)
                    got = canon2d(net._pts, net._edges) if net._pts.size else []
                    if got != segs:
                        raise Violation("csv_2d_roundtrip", f"{p.name}: wrote segments {segs}, read back {got}", "csv2d_mismatch")
                elif kind == "net3d":
                    polys, box = payload
                    net = pp.fracture_importer.network_3d_from_csv(p, has_domain=box is not None, check_convexity=False)
                    got = sorted(canon_poly(f.pts) for f in net.fractures)
                    if got != polys:
                        raise Violation("csv_3d_roundtrip", f"{p.name}: wrote {len(polys)} polygons, read back {len(got)}; first written {polys[:1]}, first read {got[:1]}", "csv3d_mismatch")
                    if box is not None:
                        bb = net.domain.bounding_box
                        if any(float(bb[k]) != float(v) for k, v in box.items()):
                            raise Violation("csv_3d_roundtrip", f"{p.name}: domain box written {box}, read {dict(bb)}", "csv3d_domain_mismatch")
                else:
                    names, cols, lossless = payload
                    got = read_data_from_txt(p)
                    shape = f"{len(cols)}col_x_{cols[0].size}row"
                    cls = "single_column" if len(cols) == 1 else ("single_row" if cols[0].size == 1 else "general")
                    if sorted(got) != sorted(names):
                        raise Violation("txt_roundtrip", f"{p.name} ({shape}): wrote columns {names}, read names {sorted(got)}", "txt_names_" + cls)
                    for nm, c in zip(names, cols):
                        g = np.atleast_1d(np.asarray(got[nm], dtype=float))
                        if g.shape != c.shape:
                            raise Violation("txt_roundtrip", f"{p.name} ({shape}): column {nm} written with shape {c.shape}, read with shape {np.shape(got[nm])}: {np.asarray(got[nm]).tolist()}", "txt_shape_" + cls)
                        if lossless:
                            ok = np.array_equal(g, c)
                        else:
                            ok = np.all(np.abs(g - c) <= 0.5e-2 * 10.0 ** np.floor(np.log10(np.maximum(np.abs(c), 1e-300))) * 1.0000001 + 1e-300)
                        if not ok:
                            raise Violation("txt_roundtrip", f"{p.name} ({shape}, {'%.17e' if lossless else '%2.2e'}): column {nm} written {c.tolist()}, read {g.tolist()}", "txt_values_" + cls)
            except Violation:
                raise
            except Exception as e:  # noqa: BLE001  reading back a successfully written file must work
                cls = ""
                if kind == "txt":
                    cls = "_single_column" if len(payload[1]) == 1 else ("_single_row" if payload[1][0].size == 1 else "")
                raise Violation("read_after_write_completes", f"reading {p.name} (last successful write: {kind}, size {size}) raised {e!r}", f"read_raised_{kind}{cls}")
            tr.op("read", "ok", p.name, kind, changing=False)

        ops = [
            Op("write_net2d", 3, op_write_2d),
            Op("write_net3d", 2, op_write_3d),
            Op("write_txt", 4, op_write_txt),
            Op("write_txt_rejected", 1, op_write_txt_rejected),
            Op("read", 5, op_read, core=True),
        ]
        with seam:
            run_history(ch, tr, ops, 3, 14)
            # final sweep: every determinate path is read once more
            for p in paths:
                kind = model[p][0]
                if kind not in ("absent", "indeterminate"):
                    op_read(p)
        tr.emit("end", [model[p][0] for p in paths])


WORKLOADS = [
    Workload(
        name="history", run=run_history_c47, runs={"quick": 30_000, "thorough": 1_500_000}, chunk=250, run_timeout=60.0,
        real=["FractureNetwork2d.to_csv / network_2d_from_csv", "FractureNetwork3d.to_csv / network_3d_from_csv", "porepy.utils.txt_io.export_data_to_txt / read_data_from_txt", "real files on tmpfs"],
        stub=["open() interposer (simkit/fsseam.py) only to inject OSError at drawn crossings; otherwise passes through"],
    ),
]
DETERMINISM_RUNS = 300

MANIFEST = {
    "engine": "history + fsseam",
    "technique": "deterministic simulation: seeded search over write/overwrite/read histories on real files with injected I/O errors at file-seam crossings, against a path -> last-successfully-written-object model; minimised replay",
    "design_ref": "DESIGN.md section 5 (C47)",
    "level_text": (
        "Seeded exploration of write/overwrite/read histories on real files: every read after a successful write must return "
        "the last object written to that path (exact for csv and %.17e, half a unit of the last printed digit for %2.2e). "
        "Injected I/O errors make a path indeterminate until the next successful write. Sampling, not proof; the fault "
        "dimension is narrow because the statement is silent about failed writes."
    ),
    "level_note": "Trusted: the generators (lattice points, convex planar polygons, identifier column names), the path model, tmpfs files.",
}
