"""C46 — Sparse N-d arrays behave like a dictionary of coordinates.

Engine B history machine: real ``pp.array_operations.SparseNdArray`` vs. a ``dict``.
The seed decides the sequence of add/get batches (duplicates inside and across batches,
overwrite vs additive, absent-coordinate reads as rejected calls).
"""

from __future__ import annotations

import numpy as np

from porepy.utils.array_operations import SparseNdArray
from engines.history import Keeper, Observer, Op, run_history
from simkit.runner import Workload
from simkit.trace import Trace, Violation

ID = "C46"
LEVEL = "exploration"
RULE = (
    "each run = one seeded history of add(batch, overwrite|additive)/get(batch)/get(absent) calls on one SparseNdArray "
    "(dim 1-3, value_dim 1-3, coordinates in a small box incl. negatives); after every step all stored coordinates are "
    "read back and compared with a dict. Non-trivial = at least 3 applied add batches or one rejected read; distinct = "
    "distinct sequence of (op kind, outcome, overlap class of the batch with stored coordinates, duplicates-in-batch flag)."
    ' Since the second session: integer-typed batches and coordinates of several integer widths, additive contributions that cancel exactly, non-finite values, batches rejected for malformed value arrays, arguments reused and results kept/edited by the caller, another array used in between, printing, a few long histories over a larger box; drawn observation frequency.'
)
STATE_ABSTRACTION = "(number of stored coordinates capped at 12, overlap class of last batch in {none,partial,all}, duplicates in last batch, additive flag)"
ASSUMPTIONS = [
    "values are multiples of 1/4 below 2**24 (or integer-typed, or +-inf) so additive sums are exact in any order (bitwise comparison is sound)",
    "coordinates are integers, as the class documents",
]
PROBES = ["observation_sparse", "observation_end", "printed_in_between", "non_finite_value", "long_history", "twin_instance_used_in_between", "rejected_malformed_values_all_new", "rejected_malformed_values", "coordinates_not_int64", "caller_mutates_arguments_after_add", "caller_mutates_returned_array", "integer_dtype_batch", "additive_cancels_to_zero", "dup_in_batch", "overlap_partial", "overlap_all", "overlap_unsorted_ge2", "batch_not_sorted", "additive_fresh_coordinate",
          "absent_read_rejected", "empty_batch", "value_dim_gt1", "negative_coordinate", "query_with_duplicates"]


def run_history_c46(ch, tr: Trace) -> None:
    with ch.span("config"):
        dim = ch.rng(1, 3)
        vdim = ch.rng(1, 3)
        box = ch.rng(1, 4)  # coordinates in [-1, box]
        # a few long histories over a larger box: hundreds of stored coordinates (thresholds of caches, chunked
        # allocation and the like are only crossed by sizes that short histories never reach)
        long_run = ch.flag(1, 40)
        if long_run:
            box = ch.rng(5, 9)
    arr = SparseNdArray(dim, value_dim=vdim)
    model: dict = {}
    counter = [0]
    tr.emit("config", dim, vdim, box)
    if vdim > 1:
        tr.probe("value_dim_gt1")

    def draw_coord():
        return tuple(ch.rng(-1, box) for _ in range(dim))

    def next_value(as_int=False):
        """Unique values; floats carry a fractional part so that a silent cast to an integer buffer is visible."""
        counter[0] += 1
        if as_int:
            return np.array([counter[0] * 8 + j for j in range(vdim)], dtype=np.int64)
        return np.array([counter[0] * 8 + j + 0.25 for j in range(vdim)], dtype=float)

    obs = Observer(ch, tr)
    keeper = Keeper(lambda label, where: Violation("get_equals_dict", f"the array returned by {label} changed under the caller's hands during {where}", "returned_array_changed_later"))

    def check_all(where: str, force=False):
        if not (force or obs.due()):
            return
        if arr._coords.shape[1] != len(model):
            raise Violation("stored_coordinates_unique", f"{arr._coords.shape[1]} stored columns for {len(model)} distinct inserted coordinates ({where})")
        if not model:
            return
        keys = sorted(model)
        # read in a seed-independent but non-sorted order (reverse) and one by one for the first few
        order = keys[::-1]
        got = arr.get([np.array(k) for k in order])
        for j, k in enumerate(order):
            if not np.array_equal(got[:, j], model[k]):
                # classify the cause for the finding signature
                raise Violation(
                    "get_equals_dict",
                    f"after {where}: get({k}) = {got[:, j].tolist()} but a dict would hold {model[k].tolist()}; all stored: "
                    f"{ {kk: model[kk].tolist() for kk in keys} }",
                )

    def op_add():
        n = ch.rng(1, 6)
        additive = ch.flag(1, 3)
        mode = ch.draw(3)  # 0 fresh-ish, 1 bias to existing, 2 mixed with dups
        coords = []
        for _ in range(n):
            if model and mode >= 1 and ch.flag():
                coords.append(ch.choice(sorted(model)))
            elif coords and mode == 2 and ch.flag(1, 3):
                coords.append(ch.choice(coords))
            else:
                coords.append(draw_coord())
        as_int = ch.flag(1, 5)  # nothing in the API restricts the dtype of the values handed in
        if as_int:
            tr.probe("integer_dtype_batch")
        vals = []
        for j, c in enumerate(coords):
            if additive and not as_int and c in model and np.all(np.isfinite(model[c])) and c not in coords[:j] and c not in coords[j + 1:] and ch.flag(1, 3):
                # an additive contribution that cancels the stored value exactly: a dictionary then holds 0.0
                vals.append(-model[c])
                tr.probe("additive_cancels_to_zero")
            elif not as_int and not additive and ch.flag(1, 12):
                # non-finite values are values too (a tabulated 1/x at x = 0): stored, read back and later overwritten
                vals.append(np.full(vdim, np.inf if ch.flag() else -np.inf))
                tr.probe("non_finite_value")
            else:
                vals.append(next_value(as_int))
        V = np.array(vals).T  # (vdim, n)
        # classification for coverage
        in_model = [c in model for c in coords]
        dups = len(set(coords)) < len(coords)
        if dups:
            tr.probe("dup_in_batch")
        ov = "none" if not any(in_model) else ("all" if all(in_model) else "partial")
        if ov != "none":
            tr.probe("overlap_" + ov)
        if list(coords) != sorted(coords):
            tr.probe("batch_not_sorted")
        if any(x < 0 for c in coords for x in c):
            tr.probe("negative_coordinate")
        existing = [c for c in sorted(set(coords)) if c in model]
        if len(existing) >= 2:
            pos = [list(map(tuple, arr._coords.T)).index(c) for c in existing]
            if pos != sorted(pos):
                tr.probe("overlap_unsorted_ge2")
        if additive and not all(in_model):
            tr.probe("additive_fresh_coordinate")
        arg_vals = V[0] if (vdim == 1 and ch.flag()) else V
        cdt = ch.choice([np.int64, np.int64, np.int32, np.int16])  # index arrays come in several integer widths (scipy: int32)
        if cdt is not np.int64:
            tr.probe("coordinates_not_int64")
        handed_coords = [np.array(c, dtype=cdt) for c in coords]
        handed_vals = np.array(arg_vals)  # the caller's own array
        arr.add(handed_coords, handed_vals, additive=additive)
        if ch.flag(1, 3):
            # the caller reuses its buffers after the call: stored data must not be aliased with them
            handed_vals += 1000
            for hc in handed_coords:
                hc += 7
            tr.probe("caller_mutates_arguments_after_add")
        for c, v in zip(coords, vals):
            if additive and c in model:
                model[c] = model[c] + v
            else:
                model[c] = v.copy()
        keeper.verify(f"add({[list(c) for c in coords]})")
        tr.op("add", "ok", [list(c) for c in coords], "additive" if additive else "overwrite", ov, dups)
        tr.state((min(len(model), 12), ov, dups, additive))
        check_all(f"add({[list(c) for c in coords]}, additive={additive})")

    def op_add_empty():
        arr.add([], np.zeros((vdim, 0)))
        tr.probe("empty_batch")
        tr.op("add_empty", "ok", changing=False)
        check_all("empty add")

    def op_get():
        keys = sorted(model)
        n = ch.rng(1, 5)
        q = [ch.choice(keys) for _ in range(n)]
        if len(set(q)) < len(q):
            tr.probe("query_with_duplicates")
        qdt = ch.choice([np.int64, np.int64, np.int32, np.int16])
        got = arr.get([np.array(k, dtype=qdt) for k in q])
        keeper.verify(f"get({[list(k) for k in q]})")
        for j, k in enumerate(q):
            if not np.array_equal(got[:, j], model[k]):
                raise Violation("get_equals_dict", f"get batch {q}: column {j} = {got[:, j].tolist()}, dict holds {model[k].tolist()}")
        if ch.flag(1, 3):
            got += 555  # the caller scribbles on the returned array: stored data must not change
            tr.probe("caller_mutates_returned_array")
        else:
            keeper.keep(got, f"get({[list(k) for k in q]})")
        tr.op("get", "ok", [list(k) for k in q], changing=False)

    def op_get_absent():
        for _ in range(20):
            c = tuple(ch.rng(-2, box + 1) for _ in range(dim))
            if c not in model:
                break
        else:
            return
        q = [c] + ([ch.choice(sorted(model))] if model and ch.flag() else [])
        q = ch.shuffle(q)
        try:
            got = arr.get([np.array(k) for k in q])
        except (ValueError, IndexError, KeyError):  # the statement asks for "an error"; ValueError is the documented one
            tr.fault("rejected-call", "get_absent")
            tr.probe("absent_read_rejected")
            tr.op("get_absent", "rejected", [list(k) for k in q], changing=False)
            check_all("rejected absent read")
            return
        raise Violation("absent_read_raises", f"get({q}) with never-inserted coordinate {c} returned {np.asarray(got).tolist()} instead of raising")

    def op_add_malformed():
        """A batch whose value array has the wrong number of rows: the call must fail, and - whatever it raises - must not
        leave coordinates behind: a coordinate of a rejected batch was never inserted (reading it raises), and every
        coordinate inserted before or afterwards still reads like the dictionary."""
        n = ch.rng(1, 4)
        coords = []
        for _ in range(n):
            coords.append(ch.choice(sorted(model)) if (model and ch.flag(1, 4)) else draw_coord())
        rows = ch.choice([vdim + 1, vdim + 2] + ([1] if vdim > 1 else []))
        V = np.arange(rows * n, dtype=float).reshape((rows, n)) + 0.5
        additive = ch.flag(1, 3)
        try:
            arr.add([np.array(c) for c in coords], V, additive=additive)
        except Exception:  # noqa: BLE001  any error is a rejection
            tr.fault("rejected-call", "malformed_values")
            tr.probe("rejected_malformed_values_all_new" if not any(c in model for c in coords) else "rejected_malformed_values")
            tr.op("add_malformed", "rejected", [list(c) for c in coords], rows, changing=False)
            fresh = [c for c in coords if c not in model]
            if fresh:
                c = fresh[0]
                try:
                    got = arr.get([np.array(c)])
                except Exception:  # noqa: BLE001
                    pass
                else:
                    raise Violation("absent_read_raises", f"after the rejected add({[list(x) for x in coords]}, values with {rows} rows for value_dim {vdim}): get({c}) returned {np.asarray(got).tolist()} although {c} was never inserted", "read_of_rejected_batch_coordinate")
            try:
                check_all(f"rejected add with {rows} value rows (value_dim {vdim})", force=True)
            except Violation as v:
                raise Violation(v.inv, v.msg, "state_changed_by_rejected_add")
            return
        if rows == 1:
            # a single row for value_dim > 1 may be read as "the same value for every component" (numpy broadcasting);
            # the statement does not say, so an implementation that accepts it must simply store that
            tr.probe("one_row_values_broadcast")
            for j, c in enumerate(coords):
                v = np.full(vdim, V[0, j])
                model[c] = model[c] + v if (additive and c in model) else v
            tr.op("add_malformed", "broadcast", [list(c) for c in coords], rows)
            check_all("add with one value row (broadcast)", force=True)
            return
        raise Violation("invalid_call_rejected", f"add with a value array of {rows} rows into an array of value_dim {vdim} was accepted", "malformed_values_accepted")

    twin = [None]

    def op_twin_noise():
        """A second array of the same class used in between: nothing of it may show in the array under study
        (class-level or module-level state shared between instances)."""
        if twin[0] is None:
            twin[0] = SparseNdArray(dim, value_dim=vdim)
        m = ch.rng(1, 4)
        cs = [np.array(draw_coord()) for _ in range(m)]
        twin[0].add(cs, np.full((vdim, m), -777.5), additive=ch.flag(1, 3))
        twin[0].get(cs[:1])
        tr.probe("twin_instance_used_in_between")
        tr.op("twin", "ok", m, changing=False)
        check_all("operations on another SparseNdArray")

    def op_repr():
        """Printing is the most innocent thing a caller can do to an object."""
        if not model:
            return  # (repr of an empty array raises on the pinned tree; not part of the statement)
        repr(arr)
        str(arr)
        tr.probe("printed_in_between")
        tr.op("repr", "ok", changing=False)
        check_all("printing the array")

    ops = [
        Op("repr", 1, op_repr),
        Op("twin_noise", 1, op_twin_noise),
        Op("add_malformed", 1, op_add_malformed),
        Op("add", 6, op_add, core=True),
        Op("get", 2, op_get, enabled=lambda: bool(model)),
        Op("get_absent", 1, op_get_absent),
        Op("add_empty", 1, op_add_empty),
    ]
    if long_run:
        tr.probe("long_history")
    run_history(ch, tr, ops, 2 if not long_run else 60, 14 if not long_run else 160, diagnose=lambda w: check_all(w, force=True))
    check_all("the end of the history", force=True)
    tr.emit("end", len(model))


WORKLOADS = [
    Workload(
        name="history",
        run=run_history_c46,
        runs={"quick": 150_000, "thorough": 3_000_000},
        chunk=500,
        run_timeout=60.0,
        real=["porepy.utils.array_operations.SparseNdArray.add/get", "porepy.utils.array_operations.intersect_sets (scipy KDTree)"],
        stub=["none (reference model: dict)"],
    ),
]
DETERMINISM_RUNS = 1500

MANIFEST = {
    "engine": "history",
    "technique": "deterministic simulation (history-only): seeded search over add/get operation sequences with stepwise refinement against a dict reference model; minimised replay",
    "design_ref": "DESIGN.md section 5 (C46)",
    "level_text": (
        "Seeded exploration of operation histories: after every add/get the real array is read back completely and compared "
        "bitwise with a dict driven by the same operations; absent reads must raise. Tens of thousands of histories per quick "
        "run, millions per thorough run. Sampling, not proof; no clock/I-O/concurrency exists on this surface, so the only "
        "schedule is the caller's operation order and the only fault a rejected call."
    ),
    "level_note": "Trusted: the dict model (20 lines), integer-valued floats for exact additive sums, coordinate boxes of side <= 6.",
}
