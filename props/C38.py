"""C38 — Exported states are restored exactly on import (crash / restart).

Workload ``exporter`` (L1, Engine B + file seam): real ``pp.Exporter`` (write_vtu,
write_pvd, import_from_pvd, import_state_from_vtu), real ``TimeManager`` time I/O and the
real ``DataSavingMixin`` protocol (write_pvd_and_vtu / load_data_from_pvd /
load_data_from_vtu, via a minimal host object) on generated md-grids: several subdomains
per dimension, mixed cell shapes (triangles, quads, hexagon polygons, tetrahedra,
hexahedra, polyhedra), interfaces, scalar and vector data.  The seed decides the sequence
export* -> [crash at a drawn file-seam crossing, possibly tearing the open file] -> restart
(one of the three documented routes, fresh objects, files only) -> continue exporting ->
... (up to 3 cycles).

Workload ``model`` (L2, Engine A): the real model run with the real
``save_data_time_step`` under injected solver faults, crashed at a drawn crossing and
restarted through ``params['restart_options']`` + ``prepare_simulation()``.

Oracle: ``durable[k]`` = (time, dt, {(grid, key): values}) recorded at the export seam.
Fault-free stratum (crash only between complete exports): the restored state equals
``durable[k]`` bitwise for the step the restart addresses, and time/dt are those of the
same k.  Fault stratum (crash inside an export, torn file): the restart may raise; if it
returns, state, time and dt must all belong to one single k in {last complete export,
in-progress export}.
"""

from __future__ import annotations

import json
import errno
import os
import shutil
from pathlib import Path

import numpy as np
import scipy.sparse as sps

import porepy as pp
from porepy.grids.mortar_grid import MortarSides
from engines import gridgen
from simkit import envseam
from simkit.fsseam import FsSeam, SimCrash
from simkit.runner import Workload
from simkit.trace import Trace, Violation

ID = "C38"
LEVEL = "fault_enumeration"
RULE = (
    "each run = one generated md-grid (1-2 subdomains per dimension among dims 0-3, mixed cell shapes, 0-2 interfaces, scalar and "
    "vector cell data with unique values) and a seeded sequence of exports, crashes at drawn file-seam crossings (optionally tearing "
    "the file being written) and restarts through the three documented routes with fresh objects built from the files only, "
    "continuing the export after each restart (<= 3 crash/restart cycles); workload model does the same with the real model run. "
    "Non-trivial = at least 3 exports or one fired crash; distinct = distinct sequence of (export, crash@file-kind, restart route, outcome)."
    " Since the second session: I/O errors (ENOSPC/EIO) at drawn crossings, exports rejected for malformed data in the middle of a run, caller-chosen tuple order, export_constants_separately, stale files of an earlier finished run, times_to_export (model workloads), model families as for C10 (workloads model_mp), workload regrid (one exporter with fixed_grid=False whose grid is replaced between exports) and workload direct (the exporter's own API: constant data updated mid-run, pvd over a selection of steps, grids changed in place and handed over again)."
)
STATE_ABSTRACTION = "(number of complete exports capped at 12, cycle number, last event kind, files of the in-progress step complete?)"
ASSUMPTIONS = [
    "crash model = process crash: closed files survive intact, the file being written may be torn, nothing is fsynced (power loss is out of scope because porepy never fsyncs)",
    "a continuing restart addresses the last complete export (as a crashed simulation would); older steps are imported read-only",
    "grids are rebuilt identically after a crash (geometry is configuration, not state); data dictionaries, exporter and time manager are fresh",
    "the statement is silent about restarts that raise after a crash inside an export; only a *returned* restart is constrained",
]
PROBES = ["mixed_cell_shapes_2d", "two_subdomains_same_dim_different_mix", "polyhedral_3d", "interface_data", "vector_data", "ge_11_exports", "non_integer_times",
          "times_closer_than_1e-6", "crash_in_times_json", "crash_in_vtu", "crash_in_step_pvd", "crash_in_collecting_pvd", "crash_between_exports", "torn_file",
          "restart_route_pvd", "restart_route_mdg_pvd", "restart_route_vtu", "second_restart", "third_restart", "restart_raised_after_midexport_crash",
          "continue_after_restart", "crash_during_restart_before_any_output", "data_tuples_not_in_mdg_order", "constants_exported_separately", "stale_output_of_previous_run_in_folder", "io_error_during_export", "rejected_export_in_the_middle_of_a_run", "grid_replaced_between_exports", "interface_grid_changed_in_place", "constant_data_updated_mid_run", "pvd_selection_not_a_prefix", "export_after_rejected_export_raises", "times_to_export_subset", "step_not_exported", "crash_right_after_export_of_failed_attempt", "readonly_import_of_older_step", "zero_d_subdomain", "export_after_vtu_route_restart_raises"]

KEYS_SD = ["p"]


# --------------------------------------------------------------------------------------
class EndOfRun(Exception):
    """The history cannot be continued for a reason outside the property (recorded as a probe)."""


class Host(pp.DataSavingMixin):
    """Minimal host for the real DataSavingMixin protocol (no physics)."""

    def __init__(self, mdg, tm, folder: Path, restart_options, keys_sd, key_intf, constants_separately=False):
        self.mdg = mdg
        self.time_manager = tm
        self.params = {"folder_name": str(folder), "file_name": "data"}
        self.restart_options = restart_options
        self.units = pp.Units()
        self._keys_sd = keys_sd
        self._key_intf = key_intf
        self.exporter = pp.Exporter(mdg, "data", folder_name=folder, export_constants_separately=constants_separately)

    def data_to_export(self):
        out = []
        for g, d in self.mdg.subdomains(return_data=True):
            for k in self._keys_sd:
                out.append((g, k, d[pp.TIME_STEP_SOLUTIONS][k][0]))
        if self._key_intf:
            for g, d in self.mdg.interfaces(return_data=True, codim=1):
                out.append((g, self._key_intf, d[pp.TIME_STEP_SOLUTIONS][self._key_intf][0]))
        if getattr(self, "bad_next", False):
            # a buggy model step: one array of the wrong size (the exporter documents a ValueError for such data)
            g, k, v = out[-1]
            out[-1] = (g, k, np.asarray(v)[:-1] if np.asarray(v).size > 1 else np.concatenate([np.asarray(v), np.asarray(v)]))
            self.bad_next = False
        # the order in which a model lists its (grid, key, values) tuples is the caller's choice
        order = getattr(self, "tuple_order", None)
        if order is not None and len(order) == len(out):
            out = [out[i] for i in order]
        return out

    def n_tuples(self):
        n = len(self._keys_sd) * len(self.mdg.subdomains())
        return n + (len(self.mdg.interfaces(codim=1)) if self._key_intf else 0)


def gen_world(ch, tr):
    """Grids and interface topology (configuration that survives a crash)."""
    dims = [d for d in (3, 2, 1, 0) if ch.flag(1, 2 if d != 2 else 1)] if not ch.flag(1, 4) else [2]
    if 2 not in dims and ch.flag():
        dims.append(2)
    dims = sorted(set(dims), reverse=True)
    subs = []  # (grid, desc)
    x_off = 0.0
    for d in dims:
        n = 1 if ch.flag(1, 2) else 2
        descs = []
        for _ in range(n):
            if d == 3:
                g, desc = gridgen.grid_3d(ch)
                if desc == "poly":
                    tr.probe("polyhedral_3d")
            elif d == 2:
                g, desc = gridgen.mixed_grid_2d(ch, (x_off, 0.0), force_mixed=ch.flag(2, 3))
                if len(set(desc)) > 1:
                    tr.probe("mixed_cell_shapes_2d")
            elif d == 1:
                g, desc = gridgen.grid_1d(ch, x_off)
            else:
                g, desc = gridgen.grid_0d(ch, x_off)
                tr.probe("zero_d_subdomain")
            x_off += 5.0
            subs.append((g, desc))
            descs.append(desc)
        if n == 2 and d == 2 and descs[0] != descs[1]:
            tr.probe("two_subdomains_same_dim_different_mix")
    # interfaces: codimension 1 between a d and a d-1 subdomain; mortar sides are copies of the lower grid
    intfs = []
    for (g_hi, _), (g_lo, _) in [(a, b) for a in subs for b in subs if a[0].dim == b[0].dim + 1]:
        if g_lo.dim in (1, 2) and ch.flag(1, 2) and len(intfs) < 2:
            sides = {MortarSides.LEFT_SIDE: g_lo.copy()}
            if ch.flag():
                sides[MortarSides.RIGHT_SIDE] = g_lo.copy()
            for s in sides.values():
                s.compute_geometry()
            intf = pp.MortarGrid(g_lo.dim, sides, primary_secondary=None, codim=1)
            intfs.append((intf, (g_hi, g_lo)))
    vector = ch.flag(1, 2)
    keys_sd = ["p", "u"] if vector else ["p"]
    if vector:
        tr.probe("vector_data")
    if intfs:
        tr.probe("interface_data")
    return {"subs": subs, "intfs": intfs, "keys_sd": keys_sd, "key_intf": "lam" if intfs else None}


def fresh_mdg(world):
    """A new container with new data dictionaries around the same grids (a restarted process)."""
    mdg = pp.MixedDimensionalGrid()
    mdg.add_subdomains([g for g, _ in world["subs"]])
    for intf, pair in world["intfs"]:
        mdg.add_interface(intf, pair, sps.identity(1))
    for g, d in mdg.subdomains(return_data=True):
        for k in world["keys_sd"]:
            n = g.num_cells * (3 if k == "u" else 1)
            pp.set_solution_values(k, np.zeros(n), d, time_step_index=0, iterate_index=0)
    for g, d in mdg.interfaces(return_data=True):
        pp.set_solution_values(world["key_intf"], np.zeros(g.num_cells), d, time_step_index=0, iterate_index=0)
    return mdg


def grid_rank(mdg):
    r = {}
    for i, g in enumerate(mdg.subdomains()):
        r[g] = ("sd", i)
    for i, g in enumerate(mdg.interfaces()):
        r[g] = ("intf", i)
    return r


def read_state(mdg, world):
    out = {}
    rk = grid_rank(mdg)
    for g, d in mdg.subdomains(return_data=True):
        for k in world["keys_sd"]:
            out[(rk[g], k)] = pp.get_solution_values(k, d, time_step_index=0)
    for g, d in mdg.interfaces(return_data=True):
        out[(rk[g], world["key_intf"])] = pp.get_solution_values(world["key_intf"], d, time_step_index=0)
    return out


def write_state(mdg, world, step, gen):
    rk = grid_rank(mdg)
    for g, d in mdg.subdomains(return_data=True):
        for k in world["keys_sd"]:
            n = g.num_cells * (3 if k == "u" else 1)
            base = 1.0e4 * gen + 100.0 * rk[g][1] + (0.5 if k == "u" else 0.0)
            pp.set_solution_values(k, base + np.arange(n) * (0.125 if k == "u" else 1.0), d, time_step_index=0)
    for g, d in mdg.interfaces(return_data=True):
        base = 1.0e4 * gen + 100.0 * rk[g][1] + 50.25
        pp.set_solution_values(world["key_intf"], base + np.arange(g.num_cells), d, time_step_index=0)


def file_kind(rel: str) -> str:
    name = os.path.basename(rel)
    if name == "times.json":
        return "times_json"
    if name == "data.pvd":
        return "collecting_pvd"
    if name.endswith(".pvd"):
        return "step_pvd"
    return "vtu"


# --------------------------------------------------------------------------------------
def compare(tr, got_state, got_time, got_dt, durable, candidates, where, strict_sig_prefix=""):
    """The restored state, time and dt must all belong to one single candidate step."""
    reasons = {}
    for k in candidates:
        d = durable[k]
        bad = None
        for key, exp in d["values"].items():
            g = got_state.get(key)
            if g is None or g.shape != exp.shape or not np.array_equal(g, exp):
                bad = ("values", key)
                break
        if bad is None:
            if not (float(got_time) == float(d["time"])):
                bad = ("time", got_time, d["time"])
            elif not (float(got_dt) == float(d["dt"])):
                bad = ("dt", got_dt, d["dt"])
        if bad is None:
            return k
        reasons[k] = bad
    # diagnose for the finding signature
    k0 = candidates[-1] if len(candidates) == 1 else candidates[0]
    r = reasons[k0]
    if r[0] == "values":
        key = r[1]
        exp = durable[k0]["values"][key]
        got = got_state.get(key)
        if got is not None and got.shape == exp.shape and np.array_equal(np.sort(got), np.sort(exp)):
            sig = "values_permuted_within_grid"
        elif got is not None and any(got.shape == d["values"][key].shape and np.array_equal(got, d["values"][key]) for d in durable.values()):
            other = [kk for kk, d in durable.items() if got.shape == d["values"][key].shape and np.array_equal(got, d["values"][key])]
            sig = "values_of_other_step"
            r = r + ("holds values of step(s) %s" % other,)
        else:
            sig = "values_wrong"
        msg = f"{where}: {key} restored as {None if got is None else got[:8].tolist()} but step {k0} wrote {exp[:8].tolist()}"
    else:
        vals_from = [kk for kk, d in durable.items() if all(np.array_equal(got_state.get(key2, np.empty(0)), v2) for key2, v2 in d["values"].items())]
        sig = "time_or_dt_of_other_step"
        msg = f"{where}: values are those of step {vals_from} but restored time={got_time!r}, dt={got_dt!r}; recorded for candidate steps: " + \
              ", ".join(f"step {kk}: time={durable[kk]['time']!r} dt={durable[kk]['dt']!r}" for kk in candidates)
    raise Violation("restart_restores_one_exported_step", msg + f" (candidates {candidates})", strict_sig_prefix + sig)


def run_exporter(ch, tr: Trace) -> None:
    with ch.span("config"):
        world = gen_world(ch, tr)
        time_family = ch.draw(3)  # 0 integer steps, 1 halves/decimals, 2 tiny increments in between
        max_cycles = ch.rng(0, 3)
        crash_midexport = ch.flag(1, 2)  # stratum: crashes inside exports (else only between complete exports)
        torn = ch.flag(1, 2)
        many = ch.flag(1, 6)
        world["constants_separately"] = ch.flag(1, 3)  # exporter option: constant data in files of their own
        stale_prev = ch.flag(1, 4)  # the output folder still holds the files of an earlier, finished run
    if world["constants_separately"]:
        tr.probe("constants_exported_separately")
    tr.emit("config", [(g.dim, d) for g, d in world["subs"]], len(world["intfs"]), world["keys_sd"], time_family, max_cycles, crash_midexport)
    with envseam.scratch() as root:
        folder = Path(root) / "viz"
        seam = FsSeam(root, tr)
        durable: dict = {}
        gen = [0]  # generation counter: every export writes globally unique values
        last_complete = [None]
        clock = {"time": 0.0, "dt": 1.0}
        cycle = [0]

        def next_time():
            if time_family == 0:
                dt = 1.0
            elif time_family == 1:
                dt = ch.choice([0.5, 0.25, 0.1, 1.5])
                tr.probe("non_integer_times")
            else:
                dt = ch.choice([1.0, 3e-7, 0.5])
                if dt < 1e-6:
                    tr.probe("times_closer_than_1e-6")
            return dt

        def new_session(restart_options):
            mdg = fresh_mdg(world)
            tm = pp.TimeManager([0, 1000], 1.0, constant_dt=True)
            host = Host(mdg, tm, folder, restart_options, world["keys_sd"], world["key_intf"], world["constants_separately"])
            return {"mdg": mdg, "tm": tm, "host": host}

        def do_export(sess, advance: bool):
            """One export through the real DataSavingMixin.write_pvd_and_vtu."""
            tm = sess["tm"]
            if advance:
                dt = next_time()
                tm.dt = dt
                tm.time = tm.time + dt
                tm.time_index += 1
                gen[0] += 1
                write_state(sess["mdg"], world, None, gen[0])
            k = sess["host"].exporter._time_step_counter
            rec = {"time": float(tm.time), "dt": float(tm.dt), "values": read_state(sess["mdg"], world), "complete": False}
            prev = durable.get(k)
            durable[k] = rec
            durable_inprogress[0] = (k, prev)
            ch.begin("tuple-order")
            try:
                mode = ch.draw(3)  # 0: md-grid order, 1: reversed, 2: shuffled
                n_t = sess["host"].n_tuples()
                sess["host"].tuple_order = None if mode == 0 else (list(range(n_t))[::-1] if mode == 1 else ch.shuffle(range(n_t)))
                if mode and n_t > 1:
                    tr.probe("data_tuples_not_in_mdg_order")
            finally:
                ch.end()
            try:
                sess["host"].write_pvd_and_vtu()
            except SimCrash:
                raise
            except AttributeError as e:
                # Seen on the pinned tree and outside the statement of C38 (which constrains imports, not the export that
                # follows one): after a restart through explicit vtu files the exporter has no _restart_files and the first
                # export into the same folder raises.  Recorded as a probe; the run ends here without a verdict.
                if "_restart_files" in str(e) and sess.get("route") == "vtu":
                    durable[k] = prev if prev is not None else durable.pop(k) and None
                    if durable.get(k) is None:
                        durable.pop(k, None)
                    raise EndOfRun("export_after_vtu_route_restart_raises")
                raise Violation("export_of_valid_data_completes", f"export of step {k} raised {e!r}", "export_raised")
            except (Violation, EndOfRun):
                raise
            except OSError:
                if io_armed[0] and seam.fired and seam.fired[-1][0] == "io-error":
                    raise  # the injected environment failure, handled by the history loop as the end of this process
                raise Violation("export_of_valid_data_completes", f"export of step {k} raised an OSError that was not injected", "export_raised")
            except Exception as e:  # noqa: BLE001  nothing can be restored from an export that does not complete
                if sess.get("had_rejected"):
                    # Seen on the pinned tree and outside the statement of C38: an export rejected for malformed data
                    # leaves the exporter's bookkeeping of constant-data files one entry short, and with
                    # export_constants_separately every later export of that exporter raises IndexError.  The run ends
                    # here without a verdict (what is on disk is still restorable, and is checked in other runs).
                    durable[k] = prev if prev is not None else durable.pop(k) and None
                    if durable.get(k) is None:
                        durable.pop(k, None)
                    raise EndOfRun("export_after_rejected_export_raises")
                raise Violation("export_of_valid_data_completes", f"export of step {k} raised {e!r}", "export_raised")
            rec["complete"] = True
            written_this_session.append(k)
            durable_inprogress[0] = None
            last_complete[0] = k
            # steps with a higher index that exist on disk are stale from now on (overwritten history)
            tr.op("export", "ok", k, rec["time"])
            if len([1 for d in durable.values() if d["complete"]]) >= 11:
                tr.probe("ge_11_exports")
            tr.state((min(last_complete[0] + 1, 12), cycle[0], "export", True))

        def do_rejected_export(sess):
            """A time step whose export is rejected (data of the wrong size): the caller catches the error and goes on.
            Nothing of this step is durable; later exports and restarts must be unaffected."""
            tm = sess["tm"]
            dt = next_time()
            tm.dt = dt
            tm.time = tm.time + dt
            tm.time_index += 1
            gen[0] += 1
            write_state(sess["mdg"], world, None, gen[0])
            sess["host"].bad_next = True
            sess["host"].tuple_order = None
            try:
                sess["host"].write_pvd_and_vtu()
            except SimCrash:
                raise
            except Exception as e:  # noqa: BLE001
                sess["host"].bad_next = False
                sess["had_rejected"] = True
                tr.fault("rejected-call", "export_of_malformed_data")
                tr.probe("rejected_export_in_the_middle_of_a_run")
                tr.op("export", "rejected", type(e).__name__, changing=False)
                return
            sess["host"].bad_next = False
            raise EndOfRun("malformed_data_accepted_by_exporter")

        durable_inprogress = [None]
        io_armed = [False]
        last_export_crossings = [40]
        ref = [None]
        home: dict = {}  # step -> folder holding its files once the run that wrote them has crashed
        written_this_session: list = []

        def vtu_files_of(k):
            ex = sess_box[0]["host"].exporter
            files = []
            for dim in ex._dims:
                files.append(folder / ex._make_file_name(Path("data"), None, k, dim).name)
            for dim in ex._m_dims:
                files.append(folder / ex._make_file_name(Path("data"), "mortar", k, dim).name)
            return files

        def restart(route, k_target, candidates, continuing, after_midexport):
            """Fresh objects, files only.  The files of the crashed run live in the reference folder ``ref[0]`` (the usage
            documented by the restart test of the repository: move the output to a reference folder, restart from there
            into a fresh output folder)."""
            rf = home.get(k_target, ref[0]) if not continuing else ref[0]
            times_file = rf / "times.json"
            if route == "pvd":
                ro = {"restart": True, "pvd_file": rf / "data.pvd", "is_mdg_pvd": False, "times_file": times_file}
            elif route == "mdg_pvd":
                ro = {"restart": True, "pvd_file": rf / f"data_{k_target:06d}.pvd", "is_mdg_pvd": True, "times_file": times_file}
            else:
                ro = {"restart": True, "pvd_file": None, "vtu_files": None, "time_index": k_target, "times_file": times_file}
            s = new_session(ro)
            s["route"] = route
            if route == "vtu":
                ro["vtu_files"] = [rf / p.name for p in vtu_files_of(k_target)]
            tr.probe("restart_route_" + route)
            try:
                if route in ("pvd", "mdg_pvd"):
                    s["host"].load_data_from_pvd(ro["pvd_file"], ro["is_mdg_pvd"], times_file)
                else:
                    s["host"].load_data_from_vtu(ro["vtu_files"], k_target, times_file)
            except SimCrash:
                raise
            except (Exception, SystemExit) as e:  # noqa: BLE001  (meshio ends unreadable files with sys.exit(1))
                if after_midexport:
                    tr.probe("restart_raised_after_midexport_crash")
                    tr.op("restart", "raised", route, k_target, type(e).__name__, changing=False)
                    return None
                raise Violation("restart_from_complete_exports_succeeds", f"restart via {route} (step {k_target}) from completely written files raised {e!r}", f"restart_raised_{route}")
            got = read_state(s["mdg"], world)
            k = compare(tr, got, s["tm"].time, s["tm"].dt, durable, candidates, f"restart #{cycle[0]} via {route}" + (" after a crash inside an export" if after_midexport else ""),
                        strict_sig_prefix=("" if not after_midexport else "midexport_"))
            if s["host"].exporter._time_step_counter != k and continuing:
                raise Violation("restart_restores_one_exported_step", f"restart via {route}: state of step {k} restored but the exporter continues at file index {s['host'].exporter._time_step_counter}", "export_counter_of_other_step")
            tr.op("restart", "ok", route, k, changing=False)
            return s, k

        sess_box = [new_session({"restart": False})]
        n_exports_total = [0]

        def _history():
            if stale_prev:
                # An earlier run (same configuration, other data, usually more steps) finished normally and left its
                # files in the output folder; the run studied here starts from scratch in the same folder.  Nothing of
                # the earlier run is durable for the oracle: a later restart must never hand back one of its values.
                s0 = sess_box[0]
                gen[0] += 1
                write_state(s0["mdg"], world, None, gen[0])
                do_export(s0, advance=False)
                for _ in range(ch.rng(1, 6)):
                    do_export(s0, advance=True)
                durable.clear()
                home.clear()
                written_this_session.clear()
                durable_inprogress[0] = None
                last_complete[0] = None
                sess_box[0] = new_session({"restart": False})
                tr.probe("stale_output_of_previous_run_in_folder")
                tr.emit("previous-run-finished")
            sess = sess_box[0]

            # initial condition export (as prepare_simulation does)
            gen[0] += 1
            write_state(sess["mdg"], world, None, gen[0])
            do_export(sess, advance=False)
            while True:
                # ---- a stretch of exports, possibly ended by a crash ----------------------------------
                n = ch.rng(1, 5) if not many else ch.rng(9, 13)
                crashed = False
                crash_inside = False
                for j in range(n):
                    ch.begin("export")
                    try:
                        if ch.flag(1, 8):
                            do_rejected_export(sess)
                        want_crash = cycle[0] < max_cycles and j == n - 1
                        if want_crash and crash_midexport:
                            # crash at a drawn crossing inside this export; the number of crossings of an export is
                            # known from the previous one (same files), so the drawn crossing usually lands inside
                            per_export = max(8, last_export_crossings[0])
                            at = seam.n + 1 + ch.draw(per_export)
                            if ch.flag(1, 4):
                                # the environment fails instead of the process: disk full / I/O error at that crossing.
                                # Nothing in porepy handles it, the exception ends the simulation; unlike a crash, the
                                # unwinding closes (and flushes) the files that were open.
                                io_armed[0] = True
                                for a in range(at, at + 400):  # first open/write crossing at or after the drawn one
                                    seam.arm_io_error(a, ch.choice([errno.ENOSPC, errno.EIO]) if a == at else errno.ENOSPC)
                            else:
                                seam.arm_crash(at, ch.choice([0.0, 0.5, 0.9, 1.0]) if torn else None)
                        c0 = seam.n
                        try:
                            do_export(sess, advance=True)
                            last_export_crossings[0] = seam.n - c0
                            io_armed[0] = False
                        except OSError as e:
                            if not (io_armed[0] and seam.fired and seam.fired[-1][0] == "io-error"):
                                raise
                            io_armed[0] = False
                            f = seam.fired[-1]
                            for w in list(seam.open_writers):
                                w._freeze(None)
                            seam.open_writers.clear()
                            kind = file_kind(f[3])
                            tr.fault("io-error@" + kind, errno.errorcode.get(e.errno, str(e.errno)))
                            tr.probe("io_error_during_export")
                            crashed = True
                            crash_inside = True
                        except SimCrash:
                            f = seam.fired[-1]
                            kind = file_kind(f[3])
                            tr.fault("crash@" + kind, f[2])
                            tr.probe("crash_in_" + kind)
                            if torn and f[2] == "write":
                                tr.fault("torn-write", kind)
                                tr.probe("torn_file")
                            crashed = True
                            crash_inside = True
                        seam.plan.clear()
                        n_exports_total[0] += 1
                    finally:
                        ch.end()
                    if crashed:
                        break
                if not crashed and cycle[0] < max_cycles:
                    # crash between complete exports
                    tr.fault("crash@between_exports", last_complete[0])
                    tr.probe("crash_between_exports")
                    crashed = True
                if not crashed:
                    break
                # ---- the process is gone: drop every object, keep the files ---------------------------
                cycle[0] += 1
                # what survives is the folder; move it aside as the reference folder of the restart
                ref[0] = Path(root) / f"ref{cycle[0]}"
                shutil.move(str(folder), str(ref[0]))
                for kk in written_this_session:
                    home[kk] = ref[0]
                written_this_session.clear()
                if cycle[0] == 2:
                    tr.probe("second_restart")
                if cycle[0] == 3:
                    tr.probe("third_restart")
                inprog = durable_inprogress[0]
                sess = None
                sess_dummy = new_session({"restart": False})  # only for file-name helpers
                sess = sess_dummy
                k_last = last_complete[0]
                candidates = [k_last]
                if crash_inside and inprog is not None:
                    candidates = [k_last, inprog[0]] if inprog[0] != k_last else [k_last]
                ch.begin("restart")
                try:
                    # optional read-only import of an older complete step through the per-step routes
                    older = [k for k, d in durable.items() if d["complete"] and k < k_last and not d.get("stale")]
                    if older and ch.flag(1, 3):
                        ko = ch.choice(sorted(older))
                        r = restart(ch.choice(["mdg_pvd", "vtu"]), ko, [ko], continuing=False, after_midexport=crash_inside)
                        tr.probe("readonly_import_of_older_step")
                    route = ch.choice(["pvd", "pvd", "mdg_pvd", "vtu"])
                    res = restart(route, k_last, candidates if route == "pvd" else [k_last], continuing=True, after_midexport=crash_inside)
                finally:
                    ch.end()
                durable_inprogress[0] = None
                if res is None:
                    break  # the restart raised after a mid-export crash: nothing further is constrained
                sess, k_restored = res
                # forget the record of an in-progress export that did not become the restart point
                if crash_inside and inprog is not None and k_restored != inprog[0]:
                    if inprog[1] is not None:
                        durable[inprog[0]] = inprog[1]
                    else:
                        durable.pop(inprog[0], None)
                elif crash_inside and inprog is not None:
                    durable[inprog[0]]["complete"] = True
                    last_complete[0] = inprog[0]
                # continue like prepare_simulation: re-export the restored state at the same step
                tr.probe("continue_after_restart")
                do_export(sess, advance=False)

        try:
            with seam:
                _history()
        except EndOfRun as e:
            tr.probe(str(e))
            tr.emit("end-outside-statement", str(e))
            return
        tr.emit("end", last_complete[0], cycle[0])


WORKLOADS = [
    Workload(
        name="exporter", leak_mb=2.3, override_cap=60, run=run_exporter, runs={"quick": 600, "thorough": 30_000}, chunk=20, run_timeout=180.0,
        real=["pp.Exporter (write_vtu, write_pvd, _export_mdg_pvd, per-cell-type grouping, import_from_pvd, import_state_from_vtu)", "meshio vtu writer/reader",
              "pp.TimeManager.write_time_information / load_time_information / set_time_and_dt_from_exported_steps",
              "pp.DataSavingMixin.write_pvd_and_vtu / load_data_from_pvd / load_data_from_vtu (hosted by a minimal object)", "real files on tmpfs"],
        stub=["open() interposer (simkit/fsseam.py): counts crossings, fires the crash, tears the open file", "host object instead of a physics model (the model-level workload uses the real model)"],
    ),
]
DETERMINISM_RUNS = 120

MANIFEST = {
    "engine": "history + fsseam (+ driver_sim for the model workload)",
    "technique": "deterministic simulation with fault injection: seeded export/crash/restart histories on real files behind a file seam (crash at a drawn open/write/close crossing, torn writes), fresh objects rebuilt from durable state only, restored state compared with the per-step durable record; minimised replay",
    "design_ref": "DESIGN.md section 5 (C38), 2.4 crash model and file seam",
    "level_text": (
        "Seeded fault enumeration over crash points and restart routes: every restart builds fresh objects from the files only and "
        "must restore values, time and dt of one single exported step (bitwise), on md-grids with mixed cell shapes, several "
        "subdomains per dimension, interfaces and vector data, including >= 11 exports, non-integer and nearly equal times, torn "
        "files and repeated restarts. Sampling, not proof."
    ),
    "level_note": "Trusted: the durable-record model, the file seam (checked by hand to see every write path), process-crash model (no power loss).",
}


# --------------------------------------------------------------------------------------
# L2: the real model run, crashed and restarted through params['restart_options']
def run_model_level(ch, tr: Trace, families=("flow",)) -> None:
    from engines import driver_sim

    sim = driver_sim.DriverSim(ch, tr, owner="C38", export=True, families=families)
    sim.configure()
    with ch.span("config2"):
        # restarts do not restore the schedule cursor (seen, outside the given properties): keep one scheduled interval
        sched = sim.tm_kw["schedule"]
        sim.tm_kw["schedule"] = [sched[0], sched[-1]]
        sim.p_fail = ch.choice([0, 0, 1, 3])
        max_cycles = ch.rng(1, 3)
        torn = ch.flag()
        sim.extra_params = {"export_constants_separately": ch.flag(1, 3)}
        if ch.flag(1, 4):
            # export only at listed times (initial, final and whatever step happens to land on an original schedule
            # point): file indices and time indices then differ, and a restart goes back over un-exported steps
            sim.extra_params["times_to_export"] = list(sched)
    if sim.extra_params["export_constants_separately"]:
        tr.probe("constants_exported_separately")
    if "times_to_export" in sim.extra_params:
        tr.probe("times_to_export_subset")
    tr.emit("config2", sim.tm_kw["schedule"], sim.p_fail, max_cycles, torn, sim.extra_params["export_constants_separately"])
    with envseam.scratch() as root:
        folder = Path(root) / "viz"
        seam = FsSeam(root, tr)
        durable: dict = {}
        state = {"inprog": None, "last_complete": None, "n_exports_session": 0, "crash_after_export": None}
        ref = None
        cycle = 0
        ro = None
        k_expected = None
        candidates = None
        after_mid = False

        def hook(model, real_save):
            k = model.exporter._time_step_counter
            tm = model.time_manager
            rec = {"time": float(tm.time), "dt": float(tm.dt), "values": {"x": model.equation_system.get_variable_values(time_step_index=0)}, "complete": False}
            prev = durable.get(k)
            durable[k] = rec
            state["inprog"] = (k, prev)
            real_save()
            if model.exporter._time_step_counter == k:
                # save_data_time_step decided not to export this step (times_to_export): nothing new is durable
                if prev is not None:
                    durable[k] = prev
                else:
                    durable.pop(k, None)
                state["inprog"] = None
                tr.probe("step_not_exported")
                return
            rec["complete"] = True
            state["inprog"] = None
            state["last_complete"] = k
            state["n_exports_session"] += 1
            tr.op("export", "ok", k, rec["time"])
            tr.state((min(k + 1, 12), cycle, "export", True))
            if state["crash_after_export"] is not None and state["n_exports_session"] >= state["crash_after_export"]:
                state["crash_after_export"] = None
                seam.fired.append(("crash", seam.n, "between", "-"))
                raise SimCrash("crash right after a complete export")
            if state.get("crash_after_failed_export") and sim.attempt > 0 and sim.converged_iterate is None and state["n_exports_session"] >= 2:
                # the export just completed is the one after_nonlinear_failure writes for a FAILED attempt (advanced time,
                # old state, the dt that failed): the process dies right after it, the restart starts from that entry
                state["crash_after_failed_export"] = False
                seam.fired.append(("crash", seam.n, "between", "-"))
                tr.probe("crash_right_after_export_of_failed_attempt")
                raise SimCrash("crash right after the export of a failed attempt")

        sim.export_hook = hook
        with seam:
            while True:
                tm = pp.TimeManager(**sim.tm_kw)
                model = sim.build(folder=str(folder), restart_options=ro, tm=tm)
                state["n_exports_session"] = 0
                crashed = False
                # arm the crash of this session
                ch.begin("arm")
                try:
                    if cycle < max_cycles:
                        mode_ = ch.draw(4)
                        if mode_ <= 1:
                            seam.arm_crash(seam.n + 1 + ch.draw(500), ch.choice([0.0, 0.5, 1.0]) if torn else None)
                        elif mode_ == 2:
                            state["crash_after_export"] = ch.rng(1, 6)
                        else:
                            state["crash_after_failed_export"] = True
                            state["crash_after_export"] = ch.rng(4, 9)  # fall-back if no attempt fails
                finally:
                    ch.end()
                try:
                    try:
                        model.prepare_simulation()
                    except (SimCrash, Violation):
                        raise
                    except (Exception, SystemExit) as e:  # noqa: BLE001  (meshio ends unreadable files with sys.exit(1))
                        if ro is not None and after_mid:
                            tr.probe("restart_raised_after_midexport_crash")
                            tr.op("restart", "raised", type(e).__name__, changing=False)
                            break
                        if ro is not None:
                            raise Violation("restart_from_complete_exports_succeeds", f"prepare_simulation() with restart_options {sorted(k for k in ro if ro[k] is not None)} raised {e!r}", "model_restart_raised")
                        raise
                    sim.start(model)
                    if sim.clock is not None:
                        for i, s in enumerate(sim.clock.sched):
                            if s <= float(model.time_manager.time):
                                sim.clock.hit[i] = True
                    driver_sim.run_model_loop(sim, model)
                    break  # the run ended without a crash
                except SimCrash:
                    f = seam.fired[-1]
                    kind = "between_exports" if f[2] == "between" else file_kind(f[3])
                    tr.fault("crash@" + kind, f[2])
                    tr.probe("crash_in_" + kind if kind != "between_exports" else "crash_between_exports")
                    if torn and f[2] == "write":
                        tr.fault("torn-write", kind)
                        tr.probe("torn_file")
                    crashed = True
                    if folder.exists() or ro is None:
                        after_mid = f[2] != "between"
                seam.plan.clear()
                state["crash_after_export"] = None
                state["crash_after_failed_export"] = False
                if not crashed:
                    break
                if state["last_complete"] is None:
                    tr.emit("crashed-before-first-export")
                    break
                # ---- process gone: move the output aside, restart from it ---------------------------------
                cycle += 1
                if cycle == 2:
                    tr.probe("second_restart")
                if cycle == 3:
                    tr.probe("third_restart")
                if not folder.exists():
                    # the restarted process died while still *reading* the reference folder, before it wrote anything:
                    # nothing new is durable, the next process restarts from the same files with the same options
                    tr.probe("crash_during_restart_before_any_output")
                    tr.emit("crashed-while-restarting")
                    sim.attempt = 0
                    continue
                ref = Path(root) / f"ref{cycle}"
                shutil.move(str(folder), str(ref))
                k_last = state["last_complete"]
                inprog = state["inprog"]
                candidates = [k_last] + ([inprog[0]] if (after_mid and inprog is not None and inprog[0] != k_last) else [])
                ch.begin("restart")
                try:
                    route = ch.choice(["pvd", "pvd", "mdg_pvd", "vtu"])
                finally:
                    ch.end()
                tr.probe("restart_route_" + route)
                times_file = ref / "times.json"
                if route == "pvd":
                    ro = {"restart": True, "pvd_file": ref / "data.pvd", "is_mdg_pvd": False, "times_file": times_file}
                elif route == "mdg_pvd":
                    ro = {"restart": True, "pvd_file": ref / f"data_{k_last:06d}.pvd", "is_mdg_pvd": True, "times_file": times_file}
                    candidates = [k_last]
                else:
                    ex = model.exporter
                    files = [ref / ex._make_file_name(Path("data"), None, k_last, d).name for d in ex._dims]
                    files += [ref / ex._make_file_name(Path("data"), "mortar", k_last, d).name for d in ex._m_dims]
                    ro = {"restart": True, "pvd_file": None, "vtu_files": files, "time_index": k_last, "times_file": times_file}
                    candidates = [k_last]
                # the restored state is observed at the first export of the restarted model (the re-export at the end
                # of prepare_simulation), through the same hook: wrap it once
                pending = {"cands": list(candidates), "route": route, "mid": after_mid, "inprog": inprog}

                def checking_hook(model, real_save, _p=pending):
                    if _p is not None and _p.get("cands") is not None:
                        tm2 = model.time_manager
                        got = {"x": model.equation_system.get_variable_values(time_step_index=0)}
                        k = compare(tr, got, tm2.time, tm2.dt, durable, _p["cands"], f"model restart #{cycle} via {_p['route']}" + (" after a crash inside an export" if _p["mid"] else ""),
                                    strict_sig_prefix="model_" + ("midexport_" if _p["mid"] else ""))
                        it0 = model.equation_system.get_variable_values(iterate_index=0)
                        if not np.array_equal(it0, got["x"]):
                            raise Violation("restart_restores_one_exported_step", f"model restart #{cycle}: the current iterate differs from the restored time-step values", "model_iterate_not_restored")
                        if model.exporter._time_step_counter != k:
                            raise Violation("restart_restores_one_exported_step", f"model restart #{cycle}: state of step {k} restored but the exporter continues at file index {model.exporter._time_step_counter}", "model_export_counter_of_other_step")
                        ip = _p["inprog"]
                        if ip is not None and k != ip[0]:
                            if ip[1] is not None:
                                durable[ip[0]] = ip[1]
                            else:
                                durable.pop(ip[0], None)
                        tr.op("restart", "ok", _p["route"], k, changing=False)
                        tr.probe("continue_after_restart")
                        _p["cands"] = None
                    hook(model, real_save)

                sim.export_hook = checking_hook
                state["inprog"] = None
                sim.attempt = 0
        tr.emit("end", state["last_complete"], cycle)


WORKLOADS.append(
    Workload(
        name="model", leak_mb=3.0, override_cap=24, run=run_model_level, runs={"quick": 96, "thorough": 3_000}, chunk=6, run_timeout=400.0,
        real=["the real SinglePhaseFlow model run: pp.run_time_dependent_model, NewtonSolver, SolutionStrategy.prepare_simulation/reset_state_from_file, DataSavingMixin.save_data_time_step/load_data_from_pvd/load_data_from_vtu, Exporter, TimeManager time I/O, restart through params['restart_options']"],
        stub=["open() interposer (crash at a drawn crossing, torn file)", "fault-injecting overrides of check_convergence/solve_linear_system (failed steps are exported too, as the code does)"],
    )
)


def run_model_level_mp(ch, tr: Trace) -> None:
    run_model_level(ch, tr, families=("energy", "mech", "poro"))


WORKLOADS.append(
    Workload(
        name="model_mp", leak_mb=3.5, override_cap=10, run=run_model_level_mp, runs={"quick": 32, "thorough": 1_200}, chunk=2, run_timeout=600.0,
        real=["as workload model, physics = MassAndEnergyBalance / MomentumBalance with contact mechanics / Poromechanics: vector-valued displacement, interface displacement, contact traction, temperature and enthalpy-flux variables are exported, crashed, imported and compared"],
        stub=["open() interposer (crash at a drawn crossing, torn file)", "fault-injecting overrides of check_convergence/solve_linear_system"],
    )
)


# --------------------------------------------------------------------------------------
# L1b: one exporter whose grid is replaced between exports (fixed_grid=False), import after every export
def run_regrid(ch, tr: Trace) -> None:
    from engines import gridgen

    with ch.span("config"):
        n_steps = ch.rng(2, 6)
        vector = ch.flag()
    with envseam.scratch() as root:
        folder = Path(root) / "viz"
        g, shapes = gridgen.mixed_grid_2d(ch, force_mixed=ch.flag(2, 3))
        ex = pp.Exporter(g, "data", folder_name=folder, fixed_grid=False)
        tr.emit("config", shapes, n_steps, vector)
        gen = 0
        for step in range(n_steps):
            ch.begin("step")
            try:
                new_grid = step > 0 and ch.flag(1, 2)
                if new_grid:
                    g, shapes = gridgen.mixed_grid_2d(ch, force_mixed=ch.flag(2, 3))
                    tr.probe("grid_replaced_between_exports")
                do_import = ch.flag(3, 4)  # an import fills whatever the exporter caches about the current grid
            finally:
                ch.end()
            gen += 1
            p_val = 1.0e4 * gen + np.arange(g.num_cells) + 0.5
            u_val = 1.0e4 * gen + 0.125 * np.arange(3 * g.num_cells) + 0.25
            data = [(g, "p", p_val)] + ([(g, "u", u_val)] if vector else [])
            try:
                if new_grid:
                    ex.write_vtu(data, time_step=step, grid=g)
                else:
                    ex.write_vtu(data, time_step=step)
            except Exception as e:  # noqa: BLE001
                raise Violation("export_of_valid_data_completes", f"write_vtu at step {step} ({'new grid ' + shapes if new_grid else 'same grid'}) raised {e!r}", "regrid_export_raised")
            tr.op("export", "ok", step, shapes, new_grid)
            if not do_import:
                continue
            d = ex._mdg.subdomain_data(g)
            for k in ("p", "u"):
                pp.set_solution_values(k, np.zeros(g.num_cells * (3 if k == "u" else 1)), d, time_step_index=0)
            f = folder / ex._make_file_name(Path("data"), None, step, 2).name
            try:
                ex.import_state_from_vtu(f, keys=["p", "u"] if vector else ["p"])
            except Exception as e:  # noqa: BLE001
                raise Violation("restart_from_complete_exports_succeeds", f"import of step {step} with the exporter that wrote it (cells {shapes}) raised {e!r}", "regrid_import_raised")
            for k, exp in (("p", p_val),) + ((("u", u_val),) if vector else ()):
                got = pp.get_solution_values(k, d, time_step_index=0)
                if not np.array_equal(np.asarray(got).ravel(), exp):
                    raise Violation("restart_restores_one_exported_step", f"step {step} (cells {shapes}, {'grid replaced' if new_grid else 'same grid'}): {k} restored as {np.asarray(got).ravel().tolist()[:8]}..., written {exp.tolist()[:8]}...", "regrid_values_wrong")
            tr.op("import", "ok", step, changing=False)
        tr.emit("end", n_steps)


WORKLOADS.append(
    Workload(
        name="regrid", leak_mb=0.5, override_cap=60, run=run_regrid, runs={"quick": 400, "thorough": 40_000}, chunk=25, run_timeout=120.0,
        real=["pp.Exporter with fixed_grid=False: write_vtu(..., grid=new_grid) between exports, import_state_from_vtu by the same exporter object after each export; generated 2-d grids mixing triangles, quadrilaterals and hexagons"],
        stub=["none (real files in a scratch folder)"],
    )
)


# --------------------------------------------------------------------------------------
# L1c: the exporter's own API (no DataSavingMixin): constant data updated in the course of a run, exported separately or
# not, pvd files gathering a selection of the exported steps, grids modified in place and handed over again
def run_direct(ch, tr: Trace) -> None:
    with ch.span("config"):
        separately = ch.flag()
        regrid = ch.flag(1, 3)  # fixed_grid=False and in-place changes of the interface grid
        n_steps = ch.rng(2, 6)
    with envseam.scratch() as root:
        folder = Path(root) / "viz"

        def make_mdg():
            m = pp.meshing.cart_grid([np.array([[0, 2], [1, 1]])], [2, 2], physdims=[2, 2])
            m.compute_geometry()
            return m

        mdg = make_mdg()
        kw = {"export_constants_separately": separately}
        if regrid:
            kw["fixed_grid"] = False
        ex = pp.Exporter(mdg, "run", folder_name=folder, **kw)
        tr.emit("config", separately, regrid, n_steps)
        counter = [0]

        def grids_of(m):
            return list(m.subdomains()) + list(m.interfaces())

        def fresh(m, frac):
            counter[0] += 1
            return [1.0e3 * counter[0] + 10.0 * j + np.arange(g.num_cells) + frac for j, g in enumerate(grids_of(m))]

        written: dict = {}
        perm = None
        remeshed: list = []  # node counts of the in-place mortar remeshings, to rebuild an identical grid for the import
        times = []
        for step in range(n_steps):
            ch.begin("step")
            try:
                new_const = step == 0 or ch.flag(1, 3)
                do_remesh = regrid and step > 0 and ch.flag(1, 3)
                n_nodes = ch.rng(2, 6)
            finally:
                ch.end()
            grid_arg = {}
            if do_remesh:
                intf = mdg.interfaces()[0]
                new_sides = {sd_: pp.refinement.remesh_1d(g_, n_nodes) for sd_, g_ in intf.side_grids.items()}
                mdg.replace_subdomains_and_interfaces(interface_map={intf: new_sides})  # same MortarGrid object, other cells
                remeshed.append(n_nodes)
                grid_arg = {"grid": mdg}
                new_const = True  # the constant field lives on the changed interface as well
                tr.probe("interface_grid_changed_in_place")
            if new_const:
                perm = fresh(mdg, 0.75)
                try:
                    ex.add_constant_data([(g, "perm", v.copy()) for g, v in zip(grids_of(mdg), perm)])
                except Exception as e:  # noqa: BLE001
                    raise Violation("export_of_valid_data_completes", f"add_constant_data at step {step} raised {e!r}", "direct_export_raised")
                if step > 0:
                    tr.probe("constant_data_updated_mid_run")
            pvals = fresh(mdg, 0.25)
            try:
                ex.write_vtu([(g, "p", v.copy()) for g, v in zip(grids_of(mdg), pvals)], time_step=step, **grid_arg)
            except Exception as e:  # noqa: BLE001
                raise Violation("export_of_valid_data_completes", f"write_vtu at step {step} ({'interface remeshed in place' if do_remesh else 'same grid'}) raised {e!r}", "direct_export_raised")
            written[step] = {"p": [v.copy() for v in pvals], "perm": [v.copy() for v in perm], "remeshed": list(remeshed)}
            times.append(0.5 * step + 0.25)
            tr.op("export", "ok", step, new_const, do_remesh)
        # the pvd gathers all steps or a selection (keyword file_extension)
        ch.begin("pvd")
        try:
            subset = sorted(ch.subset(list(range(n_steps)), 1)) if ch.flag() else None
        finally:
            ch.end()
        try:
            if subset is None:
                ex.write_pvd(times=np.array(times))
            else:
                ex.write_pvd(times=np.array([times[k] for k in subset]), file_extension=subset)
                if subset != list(range(len(subset))):
                    tr.probe("pvd_selection_not_a_prefix")
        except Exception as e:  # noqa: BLE001
            raise Violation("export_of_valid_data_completes", f"write_pvd(file_extension={subset}) raised {e!r}", "direct_export_raised")
        k_exp = n_steps - 1 if subset is None else subset[-1]
        # import with a fresh exporter on an identically constructed grid (same in-place remeshings as at step k_exp)
        envseam.pin()
        mdg2 = make_mdg()
        for nn in written[k_exp]["remeshed"]:
            intf2 = mdg2.interfaces()[0]
            mdg2.replace_subdomains_and_interfaces(interface_map={intf2: {sd_: pp.refinement.remesh_1d(g_, nn) for sd_, g_ in intf2.side_grids.items()}})
        for g in grids_of(mdg2):
            d = mdg2.subdomain_data(g) if isinstance(g, pp.Grid) else mdg2.interface_data(g)
            for key_ in ("p", "perm"):
                pp.set_solution_values(key_, np.zeros(g.num_cells), d, time_step_index=0)
        imp = pp.Exporter(mdg2, "restart", folder_name=folder)
        try:
            k_got = imp.import_from_pvd(folder / "run.pvd", keys=["p", "perm"])
        except (Exception, SystemExit) as e:  # noqa: BLE001
            raise Violation("restart_from_complete_exports_succeeds", f"import_from_pvd (pvd over steps {subset if subset is not None else 'all'}) raised {e!r}", "direct_import_raised")
        if k_got != k_exp:
            raise Violation("restart_restores_one_exported_step", f"import_from_pvd restored step {k_got}, the most recent step in the pvd is {k_exp}", "direct_other_step")
        for j, g in enumerate(grids_of(mdg2)):
            d = mdg2.subdomain_data(g) if isinstance(g, pp.Grid) else mdg2.interface_data(g)
            for key_ in ("p", "perm"):
                got = np.asarray(pp.get_solution_values(key_, d, time_step_index=0)).ravel()
                exp = written[k_exp][key_][j]
                if got.shape != exp.shape or not np.array_equal(got, exp):
                    raise Violation("restart_restores_one_exported_step", f"'{key_}' on {'subdomain' if isinstance(g, pp.Grid) else 'interface'} of dimension {g.dim} restored as {got.tolist()[:6]}, step {k_exp} wrote {exp.tolist()[:6]} (constants separately: {separately}, pvd selection {subset})", "direct_values_wrong" + ("_constant" if key_ == "perm" else ""))
        tr.op("import", "ok", k_got, changing=False)
        tr.emit("end", n_steps)


WORKLOADS.append(
    Workload(
        name="direct", leak_mb=1.0, override_cap=40, run=run_direct, runs={"quick": 240, "thorough": 20_000}, chunk=12, run_timeout=200.0,
        real=["pp.Exporter used directly: add_constant_data (updated mid-run), export_constants_separately on/off, write_vtu(time_step=k, grid=mdg) after in-place changes of the interface grid (fixed_grid=False), write_pvd(times, file_extension=selection), import_from_pvd by a fresh exporter with time-dependent and constant keys"],
        stub=["none (real files in a scratch folder)"],
    )
)
