"""C08 — Stored time-step and iterate histories behave as sliding windows.

Engine B history machines.

``helpers``  the three data-dictionary helpers (``pp.set_solution_values``,
             ``pp.get_solution_values``, ``pp.shift_solution_values``) on a bare dict;
``eqsys``    the ``EquationSystem`` wrappers on a real 2-grid, 3-variable system.

(The driver's own usage, depth = len(time_step_indices), is observed inside Engine A and
attributed to C08 there, see engines/driver_sim.py.)

Oracle (semantic, not a re-implementation of the loop): ``gens[k]`` is the value that was
at index 0 when the k-th most recent shift happened (``gens[0]`` = current value at index
0).  Index i must hold ``gens[i]`` whenever every one of the i most recent shifts was deep
enough to carry that value along; slots the shifts could not reach are not constrained
by the statement and are not compared.
"""

from __future__ import annotations

import numpy as np

import porepy as pp
from engines.history import Keeper, Observer, Op, run_history
from simkit.runner import Workload
from simkit.trace import Trace, Violation

ID = "C08"
LEVEL = "exploration"
RULE = (
    "each run = one seeded history of set(overwrite|additive; time-step, iterate or both)/shift(depth)/get/aliasing "
    "probes/rejected calls on time-step and iterate storage, through the data-dictionary helpers (workload helpers) or "
    "the EquationSystem wrappers (workload eqsys); after every step all constrained slots are read and compared with the "
    "window model. Non-trivial = at least 3 applied set/shift operations or one rejected call; distinct = distinct "
    "sequence of (op kind, outcome, location, depth)."
    ' Since the second session: values are unique with a fractional part (or integer-typed), additive increments may vanish, slots may be created in non-ascending index order, the eqsys machine has an interface whose id coincides with a subdomain id and may carry a variable of the same name, results are kept by the caller and re-verified later, the caller edits returned variable lists; drawn observation frequency; workloads driver / driver_mp observe the model usage inside the real time loop (flow, energy, contact mechanics, poromechanics, fracture damage, linear momentum balance).'
)
STATE_ABSTRACTION = "(per location: stored depth capped at 5, number of constrained slots, last op kind)"
ASSUMPTIONS = [
    "writes go to index 0 (plus the model's initialisation write to all indices of a fresh slot - one location or both in one call - and an additive increment to one older slot right after it), as in the statement",
    "values are multiples of 1/4 below 2**20 (floats with a fractional part, or integer-typed arrays): additive results are exact, comparison is bitwise",
]
PROBES = ["observation_sparse", "observation_end", "slots_created_in_non_ascending_order", "result_kept_by_caller", "zero_increment", "caller_edits_returned_variable_list", "interface_variable_same_name", "interface_variable", "depth_changed_during_run", "shift_none_grows", "shift_on_empty", "additive_after_shift", "alias_probe_get", "alias_probe_set",
          "rejected_additive_empty", "rejected_negative_index", "rejected_no_index", "rejected_two_indices_get", "rejected_get_beyond_depth",
          "rejected_shift_negative", "rejected_shift_location", "set_both_locations", "integer_dtype_value", "depth_ge3_filled", "init_all_indices", "depth3_window_filled", "init_both_locations_one_call", "additive_at_older_index"]

LOCS = (pp.TIME_STEP_SOLUTIONS, pp.ITERATE_SOLUTIONS)


def kw(loc, i):
    return {"time_step_index": i} if loc == pp.TIME_STEP_SOLUTIONS else {"iterate_index": i}


class Window:
    """Semantic model of one (location, name) slot family."""

    def __init__(self):
        self.slots: list = []  # slots[i] = (value, constrained?)  value is what index i must hold if constrained

    @property
    def n(self):
        return len(self.slots)

    def set0(self, v, additive):
        if additive:
            if not self.slots:
                return False  # must be rejected
            old, c = self.slots[0]
            self.slots[0] = (old + v, True)
        else:
            if not self.slots:
                self.slots = [(v.copy(), True)]
            else:
                self.slots[0] = (v.copy(), True)
        return True

    def init_all(self, v, depth):
        self.slots = [(v.copy(), True) for _ in range(depth)]

    def shift(self, d):
        """Which indices receive the value of their predecessor."""
        n = self.n
        if n == 0:
            return
        if d is None or d > n:
            moved_max = n  # k-1 -> k for k = 1..n (grows)
        else:
            moved_max = d - 1  # k-1 -> k for k = 1..d-1
        new = list(self.slots)
        if moved_max >= n:
            new.append(None)
        for k in range(1, len(new)):
            if k <= moved_max:
                new[k] = self.slots[k - 1]
            else:
                # not reached by this shift: no longer 'the k-th most recent', unconstrained from now on
                new[k] = (self.slots[k][0], False)
        self.slots = new


def fresh_value(counter, size, as_int=False):
    """Unique values; floats carry a fractional part (so that a silent cast to an integer buffer is visible), integer
    arrays are written now and then because nothing in the API restricts the dtype of stored values."""
    counter[0] += 1
    if as_int:
        return np.arange(size, dtype=np.int64) + counter[0] * 16
    return np.arange(size, dtype=float) + counter[0] * 16.0 + 0.25


def _int_slot(w) -> bool:
    return bool(w.n) and np.issubdtype(w.slots[0][0].dtype, np.integer)


# --------------------------------------------------------------------------------------
def run_helpers(ch, tr: Trace) -> None:
    with ch.span("config"):
        size = ch.rng(1, 4)
        names = ["u", "v"][: ch.rng(1, 2)]
        fixed_depth = {loc: ch.choice([2, 1, 3, 4, None]) for loc in LOCS}
        vary = ch.flag(1, 4)
    data: dict = {}
    model = {(loc, nm): Window() for loc in LOCS for nm in names}
    counter = [0]
    last_depth = {}
    tr.emit("config", size, names, [fixed_depth[l] for l in LOCS], vary)

    def depth_for(loc):
        if vary and ch.flag(1, 2):
            d = ch.choice([1, 2, 3, 4, None, 0])
        else:
            d = fixed_depth[loc]
        if loc in last_depth and last_depth[loc] != d:
            tr.probe("depth_changed_during_run")
        last_depth[loc] = d
        return d

    obs = Observer(ch, tr)
    keeper = Keeper(lambda label, where: Violation("reads_return_copies", f"the array returned by {label} changed under the caller's hands during {where}", "returned_array_changed_later"))

    def check_all(where, force=False):
        keeper.verify(where)
        if not (force or obs.due()):
            return
        for (loc, nm), w in model.items():
            for i, slot in enumerate(w.slots):
                val, constrained = slot
                if not constrained:
                    continue
                try:
                    got = pp.get_solution_values(nm, data, **kw(loc, i))
                except KeyError:
                    raise Violation("window_value", f"after {where}: index {i} of {loc}/{nm} is missing but must hold {val.tolist()}")
                if not np.array_equal(got, val):
                    raise Violation("window_value", f"after {where}: index {i} of {loc}/{nm} holds {got.tolist()}, the {i}-th most recent value written at index 0 is {val.tolist()}")
            if sum(1 for s in w.slots if s[1]) >= 3:
                tr.probe("depth_ge3_filled")
        tr.state(tuple((min(model[(loc, names[0])].n, 5), sum(1 for s in model[(loc, names[0])].slots if s[1])) for loc in LOCS))

    def op_set():
        nm = ch.choice(names)
        which = ch.draw(3)  # 0 time, 1 iterate, 2 both
        locs = [LOCS[0]] if which == 0 else [LOCS[1]] if which == 1 else list(LOCS)
        additive = ch.flag(1, 3)
        # an additive write must be castable into the stored array (int += float is a numpy error, not porepy's)
        as_int = any(_int_slot(model[(loc, nm)]) for loc in locs) if additive else ch.flag(1, 5)
        if as_int:
            tr.probe("integer_dtype_value")
        v = fresh_value(counter, size, as_int)
        if additive and ch.flag(1, 4):
            v = np.zeros_like(v)  # an increment that happens to vanish is still an additive write (and still needs a slot)
            tr.probe("zero_increment")
        k = {}
        for loc in locs:
            k.update(kw(loc, 0))
        expect_reject = additive and any(model[(loc, nm)].n == 0 for loc in locs)
        arg = v.copy()
        if which == 2:
            tr.probe("set_both_locations")
        try:
            pp.set_solution_values(nm, arg, data, additive=additive, **k)
        except ValueError:
            if not expect_reject:
                raise Violation("set_accepts_valid_write", f"set({nm}, {k}, additive={additive}) raised ValueError although all slots hold values")
            tr.fault("rejected-call", "additive_empty")
            tr.probe("rejected_additive_empty")
            tr.op("set", "rejected", nm, which, additive)
            # A rejected additive write to two locations may have applied the first location before failing on the
            # second: the statement only says it is rejected.  Re-sync the first location if (and only if) it changed
            # by exactly the increment; anything else is caught by check_all.
            for loc in locs:
                w = model[(loc, nm)]
                if w.n:
                    got = pp.get_solution_values(nm, data, **kw(loc, 0))
                    if np.array_equal(got, w.slots[0][0] + v):
                        w.slots[0] = (w.slots[0][0] + v, True)
            check_all("rejected additive set")
            return
        if expect_reject:
            raise Violation("additive_to_empty_rejected", f"additive set({nm}, {k}) on an empty slot was accepted")
        for loc in locs:
            w = model[(loc, nm)]
            if additive and w.n > 1:
                tr.probe("additive_after_shift")
            w.set0(v, additive)
        # aliasing: mutate the array we handed in
        if ch.flag(1, 3):
            arg += 1000
            tr.probe("alias_probe_set")
        tr.op("set", "ok", nm, which, "additive" if additive else "overwrite")
        check_all(f"set({nm}, {k}, additive={additive})")

    def op_init():
        nm = ch.choice(names)
        loc = ch.choice(LOCS)
        w = model[(loc, nm)]
        if w.n:
            return
        d = ch.rng(1, 3)
        as_int = ch.flag(1, 5)
        v = fresh_value(counter, size, as_int)
        order = ch.shuffle(list(range(d)))  # a history may be seeded oldest first, or index 1 before index 0
        if order != sorted(order):
            tr.probe("slots_created_in_non_ascending_order")
        # the model's initialisation writes time-step and iterate storage in ONE call per index; the two locations must
        # remain independent slots afterwards (seeded change C08-m: one shared snapshot for all locations at index > 0)
        other = LOCS[1] if loc == LOCS[0] else LOCS[0]
        both = model[(other, nm)].n == 0 and ch.flag(1, 2)
        for i in order:
            k = dict(kw(loc, i))
            if both:
                k.update(kw(other, i))
            pp.set_solution_values(nm, v, data, **k)
        w.init_all(v, d)
        if both:
            model[(other, nm)].init_all(v, d)
            tr.probe("init_both_locations_one_call")
        tr.probe("init_all_indices")
        tr.op("init", "ok", nm, loc, d, both)
        check_all("init")
        if d >= 2 and ch.flag(1, 2):
            # an increment applied to one older slot of one location (additive write at index > 0) changes that slot only
            i = ch.rng(1, d - 1)
            inc = fresh_value(counter, size, as_int)
            pp.set_solution_values(nm, inc.copy(), data, additive=True, **kw(loc, i))
            w.slots[i] = (w.slots[i][0] + inc, True)
            tr.probe("additive_at_older_index")
            tr.op("set_older", "ok", nm, loc, i)
            check_all(f"additive set({nm}, {kw(loc, i)}) after init", force=True)

    def op_shift():
        nm = ch.choice(names)
        loc = ch.choice(LOCS)
        d = depth_for(loc)
        w = model[(loc, nm)]
        if w.n == 0:
            tr.probe("shift_on_empty")
        if (d is None or d > w.n) and w.n:
            tr.probe("shift_none_grows")
        pp.shift_solution_values(nm, data, loc, max_index=d)
        w.shift(d)
        tr.op("shift", "ok", nm, loc, d)
        check_all(f"shift({nm}, {loc}, max_index={d})")

    def op_get_alias():
        nm = ch.choice(names)
        loc = ch.choice(LOCS)
        w = model[(loc, nm)]
        if not w.n:
            return
        i = ch.draw(w.n)
        got = pp.get_solution_values(nm, data, **kw(loc, i))
        if ch.flag():
            got += 777  # mutate the returned array
            tr.probe("alias_probe_get")
        else:
            keeper.keep(got, f"get({nm}, {loc}, {i})")  # the caller holds on to what it read: later writes and shifts must not alter it
            tr.probe("result_kept_by_caller")
        tr.op("get_mutate", "ok", nm, loc, i, changing=False)
        check_all(f"mutating the array returned by get({nm}, {loc}, {i})")

    def op_reject():
        nm = ch.choice(names)
        loc = ch.choice(LOCS)
        kind = ch.draw(6)
        v = fresh_value(counter, size)
        if kind == 4 and not model[(loc, nm)].n:
            return  # shift on an empty slot returns before validating its arguments
        try:
            if kind == 0:
                pp.set_solution_values(nm, v, data, **kw(loc, -1))
                name = "negative_index"
            elif kind == 1:
                pp.set_solution_values(nm, v, data)
                name = "no_index"
            elif kind == 2:
                pp.get_solution_values(nm, data, time_step_index=0, iterate_index=0)
                name = "two_indices_get"
            elif kind == 3:
                w = model[(loc, nm)]
                pp.get_solution_values(nm, data, **kw(loc, w.n + ch.rng(0, 2)))
                name = "get_beyond_depth"
            elif kind == 4:
                pp.shift_solution_values(nm, data, loc, max_index=-1)
                name = "shift_negative"
            else:
                pp.shift_solution_values(nm, data, "no_such_location", max_index=1)
                name = "shift_location"
        except (ValueError, KeyError) as e:
            name = ["negative_index", "no_index", "two_indices_get", "get_beyond_depth", "shift_negative", "shift_location"][kind]
            if kind == 3 and not isinstance(e, KeyError):
                raise Violation("read_beyond_depth_raises_keyerror", f"get beyond stored depth raised {e!r}")
            tr.fault("rejected-call", name)
            tr.probe("rejected_" + name)
            tr.op("reject", "rejected", name, changing=False)
            check_all(f"rejected call {name}")
            return
        raise Violation("invalid_call_rejected", f"invalid call of kind {name} was accepted")

    ops = [
        Op("set", 6, op_set, core=True),
        Op("shift", 5, op_shift, core=True),
        Op("init", 1, op_init),
        Op("get_mutate", 2, op_get_alias),
        Op("reject", 2, op_reject),
    ]
    run_history(ch, tr, ops, 3, 30, diagnose=lambda w: check_all(w, force=True))
    check_all("the end of the history", force=True)
    tr.emit("end")


# --------------------------------------------------------------------------------------
def build_system(ch):
    g1 = pp.CartGrid([ch.rng(1, 3), 1])
    g2 = pp.CartGrid([ch.rng(1, 2)])
    for g in (g1, g2):
        g.compute_geometry()
    mdg = pp.MixedDimensionalGrid()
    mdg.add_subdomains([g1, g2])
    es = pp.ad.EquationSystem(mdg)
    with_intf = ch.flag()
    if with_intf:
        # an interface between the two grids; subdomain and interface ids are numbered independently, so the interface
        # has the id of the first subdomain - and may carry a variable of the same name as the subdomains
        from porepy.grids.mortar_grid import MortarSides
        import scipy.sparse as sps

        side = pp.CartGrid([g2.num_cells])
        side.compute_geometry()
        intf = pp.MortarGrid(1, {MortarSides.LEFT_SIDE: side}, primary_secondary=None, codim=1)
        mdg.add_interface(intf, (g1, g2), sps.identity(1))
    a = es.create_variables("a", {"cells": 1}, subdomains=[g1, g2])
    b = es.create_variables("b", {"cells": ch.rng(1, 2)}, subdomains=[g1])
    if with_intf:
        es.create_variables("a" if ch.flag() else "c", {"cells": 1}, interfaces=[intf])
    return es, a, b


def run_eqsys(ch, tr: Trace) -> None:
    with ch.span("config"):
        es, a, b = build_system(ch)
        fixed_depth = {loc: ch.choice([2, 1, 3, None]) for loc in LOCS}
    atoms = list(es.variables)  # chronological: a@g1, a@g2, b@g1 (, a|c@interface)
    if len(atoms) > 3:
        tr.probe("interface_variable_same_name" if atoms[3].name == "a" else "interface_variable")
    model = {(loc, v.id): Window() for loc in LOCS for v in atoms}
    counter = [0]
    tr.emit("config", [int(es.dofs_of([v]).size) for v in atoms], [fixed_depth[l] for l in LOCS])

    def ordered(vs):
        ids = {v.id for v in vs}
        return [es._variables[i] for i in es._variable_numbers if i in ids]

    def pick_vars():
        mode = ch.draw(5)
        if mode == 4:
            return ["a"], [v for v in atoms if v.name == "a"]  # by name: every variable called "a", on any kind of grid
        if mode == 0:
            if ch.flag(1, 3):
                lst = es.variables  # the caller composes a selection by editing the list it was given ...
                if lst:
                    lst.pop(ch.draw(len(lst)))
                tr.probe("caller_edits_returned_variable_list")
            return None, atoms  # ... and then addresses "all variables"
        if mode == 1:
            return [a], list(a.sub_vars)
        if mode == 2:
            return ["b"], list(b.sub_vars)
        sub = ch.subset(atoms, 1)
        return list(sub), sub

    obs = Observer(ch, tr)
    keeper = Keeper(lambda label, where: Violation("reads_return_copies", f"the array returned by {label} changed under the caller's hands during {where}", "returned_array_changed_later"))

    def check_all(where, force=False):
        keeper.verify(where)
        if not (force or obs.due()):
            return
        for loc in LOCS:
            for v in atoms:
                w = model[(loc, v.id)]
                for i, (val, constrained) in enumerate(w.slots):
                    if not constrained:
                        continue
                    try:
                        got = es.get_variable_values([v], **kw(loc, i))
                    except KeyError:
                        raise Violation("window_value", f"after {where}: index {i} of {loc} for {v.name}@grid{v.domain.id} missing, must hold {val.tolist()}")
                    if not np.array_equal(got, val):
                        raise Violation("window_value", f"after {where}: index {i} of {loc} for {v.name}@grid{v.domain.id} holds {got.tolist()}, expected {val.tolist()}")
        tr.state(tuple((min(model[(loc, atoms[0].id)].n, 5), sum(1 for s in model[(loc, atoms[0].id)].slots if s[1])) for loc in LOCS))

    def op_set():
        arg, vs = pick_vars()
        vs = ordered(vs)
        which = ch.draw(3)
        locs = [LOCS[0]] if which == 0 else [LOCS[1]] if which == 1 else list(LOCS)
        additive = ch.flag(1, 3)
        k = {}
        for loc in locs:
            k.update(kw(loc, 0))
        sizes = [int(es.dofs_of([v]).size) for v in vs]
        as_int = any(_int_slot(model[(loc, v.id)]) for loc in locs for v in vs) if additive else ch.flag(1, 5)
        if as_int:
            tr.probe("integer_dtype_value")
        vals = [fresh_value(counter, s, as_int) for s in sizes]
        if additive and ch.flag(1, 4):
            vals = [np.zeros_like(x) for x in vals]
            tr.probe("zero_increment")
        vec = np.concatenate(vals) if vals else np.empty(0)
        if additive and any(model[(loc, v.id)].n == 0 for loc in locs for v in vs):
            # partially applied additive writes across several variables are outside the statement; only issue the
            # call when it must be rejected up front (first variable in global order has an empty slot) or is valid
            first = vs[0]
            if not any(model[(loc, first.id)].n == 0 for loc in [locs[0]]) or (which == 2 and model[(LOCS[1], first.id)].n):
                return
            try:
                es.set_variable_values(vec, arg, additive=True, **k)
            except ValueError:
                tr.fault("rejected-call", "additive_empty")
                tr.probe("rejected_additive_empty")
                tr.op("set", "rejected", which)
                check_all("rejected additive set")
                return
            raise Violation("additive_to_empty_rejected", f"additive set_variable_values({k}) on empty storage was accepted")
        handed = vec.copy()
        es.set_variable_values(handed, arg, additive=additive, **k)
        for v, val in zip(vs, vals):
            for loc in locs:
                if additive and model[(loc, v.id)].n > 1:
                    tr.probe("additive_after_shift")
                model[(loc, v.id)].set0(val, additive)
        if which == 2:
            tr.probe("set_both_locations")
        if ch.flag(1, 3):
            handed += 1000
            tr.probe("alias_probe_set")
        tr.op("set", "ok", which, "additive" if additive else "overwrite", [v.id for v in vs])
        check_all(f"set_variable_values({k}, additive={additive}, vars={[ (v.name, v.domain.id) for v in vs]})")

    def op_shift():
        arg, vs = pick_vars()
        loc = ch.choice(LOCS)
        d = fixed_depth[loc] if not ch.flag(1, 5) else ch.choice([1, 2, 3, None])
        if d != fixed_depth[loc]:
            tr.probe("depth_changed_during_run")
        if loc == pp.TIME_STEP_SOLUTIONS:
            es.shift_time_step_values(arg, max_index=d)
        else:
            es.shift_iterate_values(arg, max_index=d)
        for v in vs:
            w = model[(loc, v.id)]
            if (d is None or d > w.n) and w.n:
                tr.probe("shift_none_grows")
            if not w.n:
                tr.probe("shift_on_empty")
            w.shift(d)
        tr.op("shift", "ok", loc, d, [v.id for v in vs])
        check_all(f"shift({loc}, max_index={d})")

    def op_get_alias():
        loc = ch.choice(LOCS)
        n = min(model[(loc, v.id)].n for v in atoms)
        if n == 0:
            return
        i = ch.draw(n)
        got = es.get_variable_values(None, **kw(loc, i))
        if ch.flag():
            got += 555
            tr.probe("alias_probe_get")
        else:
            keeper.keep(got, f"get_variable_values({loc}, {i})")
            tr.probe("result_kept_by_caller")
        tr.op("get_mutate", "ok", loc, i, changing=False)
        check_all("mutating the array returned by get_variable_values")

    def op_reject():
        loc = ch.choice(LOCS)
        n = max(model[(loc, v.id)].n for v in atoms)
        kind = ch.draw(3)
        try:
            if kind == 0:
                es.get_variable_values(None, **kw(loc, n + ch.rng(0, 1)))
                nm = "get_beyond_depth"
            elif kind == 1:
                es.get_variable_values(None, time_step_index=0, iterate_index=0)
                nm = "two_indices_get"
            else:
                es.set_variable_values(np.zeros(es.num_dofs()), None, **kw(loc, -1))
                nm = "negative_index"
        except (KeyError, ValueError):
            nm = ["get_beyond_depth", "two_indices_get", "negative_index"][kind]
            tr.fault("rejected-call", nm)
            tr.probe("rejected_" + nm)
            tr.op("reject", "rejected", nm, changing=False)
            check_all(f"rejected {nm}")
            return
        raise Violation("invalid_call_rejected", f"invalid call {nm} accepted")

    ops = [
        Op("set", 6, op_set, core=True),
        Op("shift", 5, op_shift, core=True),
        Op("get_mutate", 2, op_get_alias),
        Op("reject", 2, op_reject),
    ]
    run_history(ch, tr, ops, 3, 24, diagnose=lambda w: check_all(w, force=True))
    check_all("the end of the history", force=True)
    tr.emit("end")


def _driver_run(ch, tr):
    from engines import driver_sim

    return driver_sim.make_run("C08")(ch, tr)


def _driver_mp_run(ch, tr):
    from engines import driver_sim

    return driver_sim.make_run("C08", families=("energy", "mech", "poro", "damage", "mech_lin"))(ch, tr)


WORKLOADS = [
    Workload(
        name="driver", leak_mb=0.75, override_cap=32, run=_driver_run, runs={"quick": 128, "thorough": 4_000}, chunk=8, run_timeout=300.0,
        real=["SolutionStrategy.update_solution / after_nonlinear_iteration (depth = len(time_step_indices) / len(iterate_indices), 1-3) inside the real time loop and Newton loop under injected solver faults"],
        stub=["fault-injecting overrides of check_convergence / solve_linear_system", "save_data_time_step is a no-op"],
        note="anchor 2 of the property: model usage of the sliding window, observed after every converged/failed step",
    ),
    Workload(
        name="driver_mp", leak_mb=0.9, override_cap=12, run=_driver_mp_run, runs={"quick": 32, "thorough": 1_500}, chunk=4, run_timeout=600.0,
        real=["as workload driver, physics = MassAndEnergyBalance / MomentumBalance with contact mechanics / Poromechanics (vector, interface and contact-traction variables in the windows)"],
        stub=["fault-injecting overrides of check_convergence / solve_linear_system", "save_data_time_step is a no-op"],
    ),
    Workload(
        name="helpers", run=run_helpers, runs={"quick": 40_000, "thorough": 3_000_000}, chunk=1000, run_timeout=30.0,
        real=["porepy.numerics.ad.ad_utils.set_solution_values / get_solution_values / shift_solution_values / _validate_indices"],
        stub=["none (bare data dictionary; reference model: per-slot window list)"],
    ),
    Workload(
        name="eqsys", run=run_eqsys, runs={"quick": 8_000, "thorough": 600_000}, chunk=250, run_timeout=60.0,
        real=["porepy.numerics.ad.EquationSystem.set_variable_values / get_variable_values / shift_time_step_values / shift_iterate_values on a real 2-grid md-grid with 3 atomic variables"],
        stub=["none"],
    ),
]
DETERMINISM_RUNS = 800

MANIFEST = {
    "engine": "history (+ driver_sim observation)",
    "technique": "deterministic simulation (history-only): seeded search over set/shift/get/aliasing/rejected-call sequences with stepwise comparison against a semantic sliding-window model; minimised replay",
    "design_ref": "DESIGN.md section 5 (C08)",
    "level_text": (
        "Seeded exploration of operation histories through both the data-dictionary helpers and the EquationSystem "
        "wrappers, with depths 1..4/None (also changing during a run), overwrite and additive writes, aliasing probes on "
        "arrays handed in and out, and rejected calls; every constrained slot is compared bitwise after every step. "
        "Sampling, not proof."
    ),
    "level_note": "Trusted: the window model (40 lines); slots a shallower shift could not reach are deliberately unconstrained.",
}
