"""C10 — Simulation driver keeps solution state consistent across failures.

Engine A (engines/driver_sim.py): the real time loop, Newton loop, solution-strategy hooks,
time manager, equation-system storage and flow physics, with the per-attempt failure pattern
(diverge@j, stall, nan@j, blowup@j, budget exhaustion) decided by the seeded chooser.
"""

from __future__ import annotations

from engines import driver_sim
from simkit.runner import Workload

ID = "C10"
LEVEL = "fault_enumeration"
RULE = (
    "each run = one seeded (model size, storage depths, time-manager and Newton knobs, per-attempt fault decision in "
    "{none, diverge@j, stall@j, nan@j, blowup@j}) execution of the real pp.run_time_dependent_model on a small compressible "
    "single-phase flow model (workload driver) or on energy / contact-mechanics / poromechanics models (driver_mp); after every converged step, every failed step, every raise out of the failure handling and at "
    "the end of the run the stored time-step/iterate values are compared bitwise with the shadow list of accepted solutions. "
    "Non-trivial = at least 3 accepted steps or one fired fault; distinct = distinct outcome string over "
    "{conv, landed, failed:<kind>, raised:<kind>}."
    ' Since the second session: fault kind late_diverge (divergence flagged in the last iteration the Newton loop permits), model families mass+energy balance, momentum balance with contact mechanics, poromechanics, fracture damage (overrides update_solution; full-history variables) and the linear momentum balance (no faults), predictor initial guesses, a limiter rewriting every accepted solution, residual-based convergence on/off; C10 also evaluates its own phrases "ends at the final time" and "within the recomputation budget".'
)
STATE_ABSTRACTION = "time-manager abstract state (scheduled_idx, recomp_num, about_to_hit, dt class, relation to next scheduled point) at every observation point"
ASSUMPTIONS = [
    "physics: compressible single-phase flow (workload driver) and mass+energy balance / momentum balance with contact mechanics / poromechanics (workload driver_mp), Cartesian 1-16 cell 2-d grids with 0-2 fractures; plus the fracture-damage momentum balance (which overrides update_solution) and the linear momentum balance; thermoporomechanics and compositional flow are not run",
    "faults are injected by overriding check_convergence / solve_linear_system in a model subclass (both call super() first); the export is a no-op in this workload",
    "a run is cut at 60 solve attempts (reported as probe attempt_cap_reached, no verdict for the cut tail)",
]
PROBES = driver_sim.PROBES
WARMUP_RUNS = 3

WORKLOADS = [
    Workload(
        name="driver", leak_mb=0.75, override_cap=48, run=driver_sim.make_run("C10"), runs={"quick": 320, "thorough": 12_000}, chunk=10, run_timeout=300.0,
        real=["pp.run_time_dependent_model", "pp.NewtonSolver.solve/iteration", "SolutionStrategy.before_nonlinear_loop/after_nonlinear_iteration/after_nonlinear_convergence/after_nonlinear_failure/update_solution/check_convergence",
              "pp.TimeManager", "EquationSystem value storage and assembly", "SinglePhaseFlow physics, SquareDomainOrthogonalFractures geometry, scipy sparse solve"],
        stub=["fault-injecting overrides of check_convergence and solve_linear_system (pass the real answer through when no fault is due)", "save_data_time_step is a no-op (export studied under C38)"],
    ),
    Workload(
        name="driver_mp", leak_mb=0.9, override_cap=16, run=driver_sim.make_run("C10", families=("energy", "mech", "poro", "damage", "mech_lin")), runs={"quick": 64, "thorough": 3_000}, chunk=4, run_timeout=600.0,
        real=["as workload driver, with the physics replaced by MassAndEnergyBalance / MomentumBalance (contact mechanics) / Poromechanics on the same geometry: "
              "vector-valued, interface and contact-traction variables in the stored state, genuinely non-converging solves (contact) next to the injected ones"],
        stub=["fault-injecting overrides of check_convergence and solve_linear_system", "save_data_time_step is a no-op"],
    ),
]
DETERMINISM_RUNS = 48

MANIFEST = {
    "engine": "driver_sim",
    "technique": "deterministic simulation with fault injection: the real time loop and Newton loop run in-process under a seeded schedule of injected solver failures (diverge/stall/NaN/blow-up at a drawn iteration, budget exhaustion); stored state checked bitwise against a shadow list of accepted solutions at every observation point; minimised replay",
    "design_ref": "DESIGN.md section 5 (C10), 2.2 Engine A, 2.3 fault model",
    "level_text": (
        "Seeded fault enumeration over failure-injection patterns on the real driver: which solves fail, how (divergence flag, "
        "stall until max_iterations, NaN increment, blown-up increment) and at which Newton iteration, including failures on "
        "the first/final/schedule-landing step, right after a failure, and until the recomputation budget is exhausted. "
        "Hundreds of runs per quick check, tens of thousands per thorough check. Sampling, not proof."
    ),
    "level_note": "Trusted: the shadow list of accepted (time, solution) pairs, the fault-injecting overrides, one physics family.",
}
