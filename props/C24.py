"""C24 — Mixed-dimensional grid container stays consistent under any history.

Engine B history machine: real ``pp.MixedDimensionalGrid`` (plus real ``BoundaryGrid`` /
``MortarGrid`` objects) vs. a set + dict graph.  The container starts empty or from a
small meshed fracture configuration (so that replacement operations have real
projections to update); the seed decides the order of add_subdomains / add_interface /
remove_subdomain / replace_subdomains_and_interfaces / queries / rejected calls.
"""

from __future__ import annotations

import numpy as np
import scipy.sparse as sps

import porepy as pp
from porepy.grids.mortar_grid import MortarSides
from engines.history import Observer, Op, run_history
from simkit.runner import Workload
from simkit.trace import Trace, Violation

ID = "C24"
LEVEL = "exploration"
RULE = (
    "each run = one seeded history of add_subdomains (1-3 grids of dims 0-3) / add_interface (codim 0-2) / remove_subdomain "
    "(any dimension, with and without interfaces) / replace_subdomains_and_interfaces (by copy, by 1d refinement, mortar side "
    "grids) / rejected calls on one MixedDimensionalGrid that starts empty or from a meshed 2d fracture configuration; after "
    "every step listings (all dim/codim filters), pair maps, neighbour queries and boundary grids are compared with the model. "
    "Non-trivial = at least 3 applied mutations or one rejected call; distinct = distinct sequence of (op kind, outcome, dims)."
    ' Since the second session: 3-d meshed starts (subdomains of all four dimensions), a co-dimension-0 pair with a real face map, copy() (checked in both directions), printing, a second container used in between, pair lists and grid lists reused by the caller, edited returned lists, the less travelled entry points (dim_min/dim_max, num_subdomain_cells, sort_subdomains/sort_interfaces, return_data listings); drawn observation frequency.'
)
STATE_ABSTRACTION = "(subdomains per dimension capped at 3, interfaces capped at 4, boundary grids capped at 4)"
ASSUMPTIONS = [
    "at most one interface per subdomain pair is generated (two interfaces on one pair have no well-defined inverse map)",
    "the 2-d grid is replaced only in configurations without crossing fractures (match_grids_along_1d_mortar raises for split 1-d fractures; MortarGrid documents grid updates as partially supported)",
    "subdomains adjacent to a synthetic interface (mortar grid without projections) are not replaced; replacement is exercised on meshed interfaces",
]
PROBES = ["remove_0d", "remove_with_interfaces", "remove_highest_dim", "remove_last_subdomain", "replace_by_copy", "replace_1d_refined", "replace_0d",
          "replace_mortar_sides", "add_several_at_once", "codim0_interface", "codim2_interface", "two_subdomains_same_dim", "only_0d_left_boundaries_raises",
          "rejected_existing_grid", "rejected_existing_interface", "rejected_codim3", "meshed_start", "empty_start", "ge_5_subdomains", "replace_both_ends_in_one_call", "meshed_start_3d", "observation_sparse", "observation_end", "pair_list_reused_by_caller", "twin_instance_used_in_between", "meshed_start_codim0_pair", "replace_member_of_codim0_pair", "container_copied", "printed_in_between"]


def new_grid(dim: int):
    if dim == 0:
        g = pp.PointGrid(np.zeros(3))
    elif dim == 1:
        g = pp.CartGrid([2])
    elif dim == 2:
        g = pp.CartGrid([1, 1])
    else:
        g = pp.CartGrid([1, 1, 1])
    g.compute_geometry()
    return g


def simple_1d(g) -> bool:
    """remesh_1d handles unsplit 1-d grids only (two boundary nodes)."""
    return g.dim == 1 and len(g.get_all_boundary_nodes()) == 2


def key(g):
    return (-g.dim, g.id)


def line_grid(n: int, x0: float) -> pp.Grid:
    g = pp.CartGrid(np.array([n]), np.array([1.0]))
    g.nodes[0] += x0
    g.compute_geometry()
    return g


def run_history_c24(ch, tr: Trace) -> None:
    crossing = False
    codim0_primary: dict = {}
    with ch.span("config"):
        meshed = ch.flag()
        if meshed:
            kind = ch.choice([0, 1, 2, 0, 1, 2, 0, 1, 2, 0, 1, 2, 3, 3, 3, 4, 5, 5])  # 3-d starts are ~20x dearer: 1 in 4 meshed runs
            if kind == 5:
                # two 1-d grids of equal dimension joined end to end by a 0-d mortar with a real face map (co-dimension 0)
                g_a, g_b = line_grid(2, 0.0), line_grid(2, 1.0)
                pt = pp.PointGrid(np.array([1.0, 0.0, 0.0]))
                pt.compute_geometry()
                fm = sps.csc_matrix((np.ones(1), (np.array([0]), np.array([g_a.num_faces - 1]))), shape=(g_b.num_faces, g_a.num_faces))
                i0 = pp.MortarGrid(0, {MortarSides.LEFT_SIDE: pt}, fm, codim=0)
                mdg = pp.MixedDimensionalGrid()
                mdg.add_subdomains([g_a, g_b])
                mdg.add_interface(i0, (g_b, g_a) if ch.flag() else (g_a, g_b), fm)
                mdg.compute_geometry()
                codim0_primary[i0] = g_a  # the mortar's projections treat g_a as primary; only that role can be replaced, once
                tr.probe("meshed_start_codim0_pair")
            elif kind == 0:
                fr = [np.array([[0, 2], [1, 1]])]
            elif kind == 1:
                fr = [np.array([[0, 2], [1, 1]]), np.array([[1, 1], [0, 2]])]
                crossing = True
            elif kind == 2:
                fr = [np.array([[0, 1], [1, 1]])]
            if kind == 5:
                pass
            elif kind <= 2:
                mdg = pp.meshing.cart_grid(fr, [2, 2])
            else:
                # 3-d start: two or three mutually orthogonal planes through the cube -> subdomains of all four dimensions
                # (3 planes: a 0-d intersection point), chains of co-dimension-1 interfaces of dimensions 2, 1 and 0
                f1 = np.array([[1, 1, 1, 1], [0, 2, 2, 0], [0, 0, 2, 2]])
                f2 = np.array([[0, 2, 2, 0], [1, 1, 1, 1], [0, 0, 2, 2]])
                f3 = np.array([[0, 2, 2, 0], [0, 0, 2, 2], [1, 1, 1, 1]])
                mdg = pp.meshing.cart_grid([f1, f2] if kind == 3 else [f1, f2, f3], [2, 2, 2])
                crossing = True
                tr.probe("meshed_start_3d")
            tr.probe("meshed_start")
        else:
            mdg = pp.MixedDimensionalGrid()
            tr.probe("empty_start")
    # ---- model ---------------------------------------------------------------------
    subs: list = list(mdg.subdomains())
    pair: dict = {i: mdg.interface_to_subdomain_pair(i) for i in mdg.interfaces()}
    real_intf = set(pair)  # interfaces with projections (from the mesher)
    data_id: dict = {g: id(mdg.subdomain_data(g)) for g in subs}
    data_id.update({i: id(mdg.interface_data(i)) for i in pair})
    poisoned = [None]  # set when a documented rejection may have left partial state (see op_reject)
    tr.emit("config", meshed, [(g.dim, g.num_cells) for g in subs], len(pair))

    def lab(g):
        return f"{'sd' if isinstance(g, pp.Grid) else 'intf'}(dim={g.dim},id={g.id})"

    def real_call(what, fn):
        """Run a query that is valid in the current model state; any exception is a violation."""
        try:
            return fn()
        except Exception as e:  # noqa: BLE001
            tail = f" [after documented rejection: {poisoned[0]}]" if poisoned[0] else ""
            raise Violation("query_on_consistent_container", f"{what} raised {e!r}{tail}", "query_raised" + ("_after_rejected_add_interface" if poisoned[0] else ""))

    def check(where, force=False):
        if not (force or obs.due()):
            return
        sfx = "_after_rejected_add_interface" if poisoned[0] else ""
        verify_copies(where)
        exp_s = sorted(subs, key=key)
        got_s = real_call("subdomains()", lambda: mdg.subdomains())
        if len(got_s) != len(exp_s) or any(a is not b for a, b in zip(got_s, exp_s)):
            raise Violation("subdomains_listed_once_sorted", f"after {where}: subdomains() = {[lab(g) for g in got_s]}, expected {[lab(g) for g in exp_s]}", "subdomain_listing" + sfx)
        exp_i = sorted(pair, key=key)
        got_i = real_call("interfaces()", lambda: mdg.interfaces())
        if len(got_i) != len(exp_i) or any(a is not b for a, b in zip(got_i, exp_i)):
            raise Violation("interfaces_listed_once_sorted", f"after {where}: interfaces() = {[lab(g) for g in got_i]}, expected {[lab(g) for g in exp_i]}", "interface_listing" + sfx)
        # the lists handed out belong to the caller, who may edit them (compose a selection by removing entries)
        if isinstance(got_s, list):
            got_s.clear()
        if isinstance(got_i, list):
            got_i.reverse()
            del got_i[:1]
        for d in range(4):
            g_d = real_call(f"subdomains(dim={d})", lambda: mdg.subdomains(dim=d))
            e_d = [g for g in exp_s if g.dim == d]
            if len(g_d) != len(e_d) or any(a is not b for a, b in zip(g_d, e_d)):
                raise Violation("subdomains_listed_once_sorted", f"after {where}: subdomains(dim={d}) = {[lab(g) for g in g_d]}, expected {[lab(g) for g in e_d]}", "subdomain_listing_dim" + sfx)
            if len(e_d) >= 2:
                tr.probe("two_subdomains_same_dim")
            for cd in (None, 0, 1, 2):
                gi = real_call(f"interfaces(dim={d},codim={cd})", lambda: mdg.interfaces(dim=d, codim=cd))
                ei = [i for i in exp_i if i.dim == d and (cd is None or i.codim == cd)]
                if len(gi) != len(ei) or any(a is not b for a, b in zip(gi, ei)):
                    raise Violation("interfaces_listed_once_sorted", f"after {where}: interfaces(dim={d}, codim={cd}) = {[lab(g) for g in gi]}, expected {[lab(g) for g in ei]}", "interface_listing_dim" + sfx)
        if mdg.num_subdomains() != len(subs) or mdg.num_interfaces() != len(pair):
            raise Violation("counts", f"after {where}: num_subdomains/num_interfaces = {mdg.num_subdomains()}/{mdg.num_interfaces()}, model {len(subs)}/{len(pair)}", "counts" + sfx)
        # pair maps
        for i, (hi, lo) in pair.items():
            p = real_call(f"interface_to_subdomain_pair({lab(i)})", lambda: mdg.interface_to_subdomain_pair(i))
            if p[0] is not hi or p[1] is not lo:
                raise Violation("interface_pair_map", f"after {where}: {lab(i)} maps to ({lab(p[0])}, {lab(p[1])}), expected ({lab(hi)}, {lab(lo)})")
            for q in ((hi, lo), (lo, hi)):
                back = real_call("subdomain_pair_to_interface", lambda: mdg.subdomain_pair_to_interface(q))
                if back is not i:
                    raise Violation("interface_pair_map", f"after {where}: pair ({lab(q[0])}, {lab(q[1])}) maps back to {lab(back)}, expected {lab(i)}")
            if id(mdg.interface_data(i)) != data_id[i]:
                raise Violation("data_dictionary_kept", f"after {where}: data dictionary of {lab(i)} is a different object")
        # neighbourhood and boundary grids
        n_bg = 0
        for g in subs:
            e_if = sorted([i for i, (a, b) in pair.items() if a is g or b is g], key=key)
            g_if = real_call(f"subdomain_to_interfaces({lab(g)})", lambda: mdg.subdomain_to_interfaces(g))
            if isinstance(g_if, list) and len(g_if) == len(e_if) and all(a is b for a, b in zip(g_if, e_if)):
                g_if_seen = list(g_if)
                g_if.clear()  # caller edits its copy
                g_if = g_if_seen
            if len(g_if) != len(e_if) or any(a is not b for a, b in zip(g_if, e_if)):
                raise Violation("subdomain_to_interfaces", f"after {where}: interfaces of {lab(g)} = {[lab(x) for x in g_if]}, expected {[lab(x) for x in e_if]}")
            neigh = [(b if a is g else a) for i, (a, b) in pair.items() if a is g or b is g]
            for flt, kw in (("all", {}), ("higher", {"only_higher": True}), ("lower", {"only_lower": True})):
                e_n = sorted([x for x in neigh if flt == "all" or (flt == "higher" and x.dim > g.dim) or (flt == "lower" and x.dim < g.dim)], key=key)
                g_n = real_call(f"neighboring_subdomains({lab(g)}, {flt})", lambda: mdg.neighboring_subdomains(g, **kw))
                if len(g_n) != len(e_n) or any(a is not b for a, b in zip(g_n, e_n)):
                    raise Violation("neighboring_subdomains", f"after {where}: {flt} neighbours of {lab(g)} = {[lab(x) for x in g_n]}, expected {[lab(x) for x in e_n]}")
            bg = mdg.subdomain_to_boundary_grid(g)
            if g.dim == 0:
                if bg is not None:
                    raise Violation("boundary_grid_per_subdomain", f"after {where}: 0-d {lab(g)} has a boundary grid")
            else:
                n_bg += 1
                if bg is None or bg.parent is not g:
                    raise Violation("boundary_grid_per_subdomain", f"after {where}: {lab(g)} has boundary grid {bg} (parent {getattr(bg, 'parent', None)})", "boundary_grid_missing_or_wrong_parent")
                if bg not in mdg:
                    raise Violation("boundary_grid_per_subdomain", f"after {where}: boundary grid of {lab(g)} has no data dictionary")
            if id(mdg.subdomain_data(g)) != data_id[g]:
                raise Violation("data_dictionary_kept", f"after {where}: data dictionary of {lab(g)} is a different object")
            if g not in mdg:
                raise Violation("contains", f"after {where}: {lab(g)} not in mdg")
        # the less travelled entry points must tell the same story
        if subs:
            dims = [g.dim for g in subs]
            dmax = real_call("dim_max()", lambda: mdg.dim_max())
            dmin = real_call("dim_min()", lambda: mdg.dim_min())
            if dmax != max(dims) or dmin != min(dims):
                raise Violation("subdomains_listed_once_sorted", f"after {where}: dim_max/dim_min = {dmax}/{dmin}, the subdomains present have dimensions {sorted(set(dims))}", "dim_min_max")
            nc = real_call("num_subdomain_cells()", lambda: mdg.num_subdomain_cells())
            if nc != sum(g.num_cells for g in subs):
                raise Violation("counts", f"after {where}: num_subdomain_cells() = {nc}, the subdomains present have {sum(g.num_cells for g in subs)} cells", "num_cells")
            shuffled = list(reversed(exp_s))
            srt = real_call("sort_subdomains", lambda: mdg.sort_subdomains(shuffled))
            if len(srt) != len(exp_s) or any(a is not b for a, b in zip(srt, exp_s)):
                raise Violation("subdomains_listed_once_sorted", f"after {where}: sort_subdomains(reversed listing) = {[lab(g) for g in srt]}, expected {[lab(g) for g in exp_s]}", "sort_subdomains")
            with_data = real_call("subdomains(return_data=True)", lambda: mdg.subdomains(return_data=True))
            if len(with_data) != len(exp_s) or any(a[0] is not b or id(a[1]) != data_id[b] for a, b in zip(with_data, exp_s)):
                raise Violation("subdomains_listed_once_sorted", f"after {where}: subdomains(return_data=True) does not pair every subdomain, in listing order, with its own data dictionary", "listing_with_data")
        if pair:
            srt_i = real_call("sort_interfaces", lambda: mdg.sort_interfaces(list(reversed(exp_i))))
            if len(srt_i) != len(exp_i) or any(a is not b for a, b in zip(srt_i, exp_i)):
                raise Violation("interfaces_listed_once_sorted", f"after {where}: sort_interfaces(reversed listing) = {[lab(g) for g in srt_i]}, expected {[lab(g) for g in exp_i]}", "sort_interfaces")
            with_data_i = real_call("interfaces(return_data=True)", lambda: mdg.interfaces(return_data=True))
            if len(with_data_i) != len(exp_i) or any(a[0] is not b or id(a[1]) != data_id[b] for a, b in zip(with_data_i, exp_i)):
                raise Violation("interfaces_listed_once_sorted", f"after {where}: interfaces(return_data=True) does not pair every interface, in listing order, with its own data dictionary", "listing_with_data")
        # boundaries(): one per positive-dimensional subdomain, sorted; documented ValueError if only 0-d subdomains exist
        if subs and n_bg == 0:
            try:
                mdg.boundaries()
            except ValueError:
                tr.probe("only_0d_left_boundaries_raises")
            else:
                raise Violation("boundaries_listing", f"after {where}: boundaries() did not raise although only 0-d subdomains are present")
        else:
            bgs = real_call("boundaries()", lambda: mdg.boundaries())
            exp_b = sorted([mdg.subdomain_to_boundary_grid(g) for g in subs if g.dim > 0], key=key)
            if len(bgs) != len(exp_b) or any(a is not b for a, b in zip(bgs, exp_b)):
                raise Violation("boundaries_listing", f"after {where}: boundaries() lists {len(bgs)} grids (dims {[b.dim for b in bgs]}), expected {len(exp_b)} (one per positive-dimensional subdomain, sorted)", "boundary_listing")
        if len(subs) >= 5:
            tr.probe("ge_5_subdomains")
        cnt = [min(sum(1 for g in subs if g.dim == d), 3) for d in range(4)]
        tr.state((tuple(cnt), min(len(pair), 4), min(n_bg, 4)))

    # ---- operations ------------------------------------------------------------------
    def op_add():
        n = 1 if ch.flag(2, 3) else ch.rng(2, 3)
        gs = [new_grid(ch.choice([1, 2, 0, 3])) for _ in range(n)]
        if n == 1 and ch.flag():
            mdg.add_subdomains(gs[0])
        else:
            handed = list(gs)
            mdg.add_subdomains(handed)
            if ch.flag(1, 3):
                handed.clear()  # the caller reuses its list
        for g in gs:
            subs.append(g)
            data_id[g] = id(mdg.subdomain_data(g))
        if n > 1:
            tr.probe("add_several_at_once")
        tr.op("add_subdomains", "ok", [g.dim for g in gs])
        check(f"add_subdomains(dims={[g.dim for g in gs]})")

    def free_pairs():
        used = {frozenset((id(a), id(b))) for a, b in pair.values()}
        out = []
        for a in subs:
            for b in subs:
                if a is b or key(a) > key(b):
                    continue
                cd = abs(a.dim - b.dim)
                if cd > 2 or frozenset((id(a), id(b))) in used:
                    continue
                md = min(a.dim, b.dim) if cd > 0 else a.dim - 1
                if md < 0 or md > 2:
                    continue
                out.append((a, b, cd, md))
        return out

    def op_add_interface():
        fp = free_pairs()
        if not fp:
            return
        a, b, cd, md = ch.choice(fp)
        side = new_grid(md)
        intf = pp.MortarGrid(md, {MortarSides.LEFT_SIDE: side}, primary_secondary=None, codim=cd)
        order = (a, b) if ch.flag() else (b, a)
        if ch.flag(1, 3):
            # the pair is handed over as a list (accepted, the unit tests do it) which the caller reuses afterwards
            scratch = list(order)
            mdg.add_interface(intf, scratch, sps.identity(1))
            scratch[ch.draw(2)] = None
            if ch.flag():
                scratch.reverse()
            tr.probe("pair_list_reused_by_caller")
        else:
            mdg.add_interface(intf, order, sps.identity(1))
        hi, lo = sorted((a, b), key=key)
        pair[intf] = (hi, lo)
        data_id[intf] = id(mdg.interface_data(intf))
        if cd == 0:
            tr.probe("codim0_interface")
        if cd == 2:
            tr.probe("codim2_interface")
        tr.op("add_interface", "ok", (a.dim, b.dim), cd)
        check(f"add_interface between {lab(a)} and {lab(b)}")

    def op_remove():
        g = ch.choice(sorted(subs, key=key))
        mine = [i for i, (a, b) in pair.items() if a is g or b is g]
        if g.dim == 0:
            tr.probe("remove_0d")
        if mine:
            tr.probe("remove_with_interfaces")
        if g.dim == max(s.dim for s in subs):
            tr.probe("remove_highest_dim")
        if len(subs) == 1:
            tr.probe("remove_last_subdomain")
        old_bg = mdg.subdomain_to_boundary_grid(g)
        try:
            mdg.remove_subdomain(g)
        except Exception as e:  # noqa: BLE001  removing a present subdomain is always valid
            sig = "remove_0d_subdomain_raises" if g.dim == 0 else "remove_subdomain_raises"
            if poisoned[0]:
                sig += "_after_rejected_add_interface"
            raise Violation("remove_subdomain_completes", f"remove_subdomain({lab(g)}) raised {e!r}", sig)
        subs.remove(g)
        for i in mine:
            del pair[i]
            real_intf.discard(i)
        tr.op("remove_subdomain", "ok", g.dim, len(mine))
        if g in mdg or any(i in mdg for i in mine) or (old_bg is not None and old_bg in mdg):
            raise Violation("removal_deletes_exactly", f"after remove_subdomain({lab(g)}): the subdomain, one of its interfaces or its boundary grid is still contained")
        check(f"remove_subdomain({lab(g)})")

    def replaceable():
        out = []
        for g in subs:
            mine = [i for i, (a, b) in pair.items() if a is g or b is g]
            if mine and all(i in codim0_primary for i in mine):
                if all(codim0_primary[i] is g for i in mine):
                    out.append((g, "line_codim0"))
                continue
            if all(i in real_intf for i in mine):
                if not mine:
                    out.append((g, "copy"))
                elif g.dim == 1 and simple_1d(g) and all(i.dim == 1 and pair[i][1] is g for i in mine):
                    out.append((g, "refine1d"))  # 1-d fracture, secondary of its interfaces
                elif g.dim == 2 and not crossing and all(i.dim == 1 and pair[i][0] is g for i in mine):
                    out.append((g, "copy"))  # match_grids_along_1d_mortar supports unsplit 1-d fractures only
        return out

    def op_replace_sd():
        cands = replaceable()
        if not cands:
            return
        g, how = ch.choice(cands)
        if how == "line_codim0":
            g_new = line_grid(ch.rng(2, 5), float(g.nodes[0].min()))
            for i in [i for i, (a, b) in pair.items() if a is g or b is g]:
                del codim0_primary[i]  # replacing the other role (update_secondary across equal dimensions) is not implemented
                codim0_primary[i] = None
            tr.probe("replace_member_of_codim0_pair")
        elif how == "copy":
            g_new = g.copy()
            tr.probe("replace_by_copy")
        else:
            if getattr(g, "_verif_replaced", False):
                g_new = g.copy()  # update_secondary documents: a non-matching secondary may be replaced only once
                tr.probe("replace_by_copy")
            else:
                g_new = pp.refinement.remesh_1d(g, ch.rng(2, 6))
                tr.probe("replace_1d_refined")
            g_new._verif_replaced = True
        if g.dim == 0:
            tr.probe("replace_0d")
        try:
            mdg.replace_subdomains_and_interfaces(sd_map={g: g_new})
        except Exception as e:  # noqa: BLE001
            sig = "replace_0d_subdomain_raises" if g.dim == 0 else "replace_subdomain_raises"
            raise Violation("replace_completes", f"replace_subdomains_and_interfaces({lab(g)} -> {how}) raised {e!r}", sig)
        subs[subs.index(g)] = g_new
        data_id[g_new] = data_id.pop(g)
        for i, (a, b) in list(pair.items()):
            if a is g or b is g:
                na, nb = (g_new if a is g else a), (g_new if b is g else b)
                pair[i] = tuple(sorted((na, nb), key=key))
        tr.op("replace_subdomain", "ok", g.dim, how)
        if g in mdg:
            raise Violation("replacement_swaps_grid", f"after replacing {lab(g)} the old grid is still contained")
        check(f"replace {lab(g)} by {how}")

    def op_replace_both_ends():
        """One call replacing both neighbours of one meshed interface (order of the map entries is the caller's)."""
        cands = []
        for i in sorted(real_intf, key=key):
            hi, lo = pair[i]
            if i.dim != 1 or crossing or hi.dim != 2 or not simple_1d(lo):
                continue
            if any(j not in real_intf for j, (a, b) in pair.items() if a is hi or b is hi or a is lo or b is lo):
                continue
            cands.append(i)
        if not cands:
            return
        i = ch.choice(cands)
        hi, lo = pair[i]
        hi_new = hi.copy()
        lo_new = lo.copy()
        lo_new._verif_replaced = getattr(lo, "_verif_replaced", False)
        entries = [(hi, hi_new), (lo, lo_new)]
        if ch.flag():
            entries.reverse()
        try:
            mdg.replace_subdomains_and_interfaces(sd_map=dict(entries))
        except Exception as e:  # noqa: BLE001
            raise Violation("replace_completes", f"replacing both neighbours of {lab(i)} in one call raised {e!r}", "replace_both_ends_raises")
        for old, new in entries:
            subs[subs.index(old)] = new
            data_id[new] = data_id.pop(old)
            for j, (a, b) in list(pair.items()):
                if a is old or b is old:
                    na, nb = (new if a is old else a), (new if b is old else b)
                    pair[j] = tuple(sorted((na, nb), key=key))
        tr.probe("replace_both_ends_in_one_call")
        tr.op("replace_both_ends", "ok", [e[0].dim for e in entries])
        check(f"replacing both neighbours of {lab(i)} in one call (order {[e[0].dim for e in entries]})")

    def op_replace_mortar():
        cands = sorted([i for i in real_intf if i.dim == 1 and all(simple_1d(g) for g in i.side_grids.values())], key=key)
        if not cands:
            return
        i = ch.choice(cands)
        new_sides = {s: pp.refinement.remesh_1d(g, ch.rng(2, 6)) for s, g in i.side_grids.items()}
        arg = new_sides
        try:
            mdg.replace_subdomains_and_interfaces(interface_map={i: arg})
        except Exception as e:  # noqa: BLE001
            raise Violation("replace_completes", f"replacing the side grids of {lab(i)} raised {e!r}", "replace_mortar_raises")
        tr.probe("replace_mortar_sides")
        tr.op("replace_mortar", "ok", i.num_cells)
        check(f"replace side grids of {lab(i)}")

    def op_reject():
        kind = ch.draw(3)
        try:
            if kind == 0:
                if not subs:
                    return
                mdg.add_subdomains([new_grid(1), ch.choice(sorted(subs, key=key))])
            elif kind == 1:
                if not pair:
                    return
                i = ch.choice(sorted(pair, key=key))
                mdg.add_interface(i, pair[i], sps.identity(1))
            else:
                hi3 = [g for g in subs if g.dim == 3]
                lo0 = [g for g in subs if g.dim == 0]
                if not hi3 or not lo0:
                    return
                side = new_grid(0)
                bad = pp.MortarGrid(0, {MortarSides.LEFT_SIDE: side}, primary_secondary=None, codim=3)
                mdg.add_interface(bad, (hi3[0], lo0[0]), sps.identity(1))
        except ValueError as e:
            nm = ["existing_grid", "existing_interface", "codim3"][kind]
            tr.fault("rejected-call", nm)
            tr.probe("rejected_" + nm)
            tr.op("reject", "rejected", nm, changing=False)
            if kind == 2:
                poisoned[0] = "add_interface with a codimension-3 pair raised ValueError"
            check(f"rejected call {nm}")
            return
        raise Violation("invalid_call_rejected", f"invalid call of kind {['existing_grid', 'existing_interface', 'codim3'][kind]} was accepted")

    copies: list = []  # (copy of the container, snapshot of the model when it was taken)

    def verify_copies(where):
        """A copy() is a container of its own: what happens to the original afterwards must not show in it."""
        for cp, s_subs, s_pair, s_bg in copies:
            got = real_call("copy.subdomains()", lambda: cp.subdomains())
            if len(got) != len(s_subs) or any(a is not b for a, b in zip(got, s_subs)):
                raise Violation("subdomains_listed_once_sorted", f"after {where}: a copy taken earlier now lists {[lab(g) for g in got]}, it held {[lab(g) for g in s_subs]}", "copy_changed_with_original")
            got_i = real_call("copy.interfaces()", lambda: cp.interfaces())
            if len(got_i) != len(s_pair) or any(a is not b for a, b in zip(got_i, sorted(s_pair, key=key))):
                raise Violation("interfaces_listed_once_sorted", f"after {where}: a copy taken earlier now lists other interfaces than it held", "copy_changed_with_original")
            for g, bg in s_bg.items():
                now = real_call("copy.subdomain_to_boundary_grid", lambda: cp.subdomain_to_boundary_grid(g))
                if now is not bg:
                    raise Violation("boundary_grid_per_subdomain", f"after {where}: in a copy taken earlier {lab(g)} now has boundary grid {now}, it had {bg}", "copy_changed_with_original")
            n_pos = sum(1 for g in s_subs if g.dim > 0)
            if n_pos:
                bgs = real_call("copy.boundaries()", lambda: cp.boundaries())
                if len(bgs) != n_pos:
                    raise Violation("boundary_grid_per_subdomain", f"after {where}: a copy taken earlier lists {len(bgs)} boundary grids for {n_pos} positive-dimensional subdomains", "copy_changed_with_original")

    def op_copy():
        if len(copies) >= 2 or not subs:
            return
        cp = real_call("copy()", lambda: mdg.copy())
        copies.append((cp, sorted(subs, key=key), dict(pair), {g: mdg.subdomain_to_boundary_grid(g) for g in subs}))
        tr.probe("container_copied")
        tr.op("copy", "ok", len(subs), changing=False)
        if ch.flag(1, 3) and len(subs) > 1:
            # ... and the copy is a container the caller may change: the original must not notice
            victim = ch.choice(sorted(subs, key=key))
            cp2 = mdg.copy()
            cp2.remove_subdomain(victim)
            check("removing a subdomain from a copy of the container")

    twin = [None]

    def op_twin_noise():
        """A second container used in between (containers must not share state through class-level attributes)."""
        if twin[0] is None:
            twin[0] = pp.MixedDimensionalGrid()
        g_t = new_grid(ch.choice([1, 2, 0]))
        twin[0].add_subdomains(g_t)
        twin[0].subdomains()
        if twin[0].num_subdomains() > 2 and ch.flag():
            twin[0].remove_subdomain(twin[0].subdomains()[-1])
        tr.probe("twin_instance_used_in_between")
        tr.op("twin", "ok", g_t.dim, changing=False)
        check("operations on another MixedDimensionalGrid")

    def op_repr():
        try:
            repr(mdg)
            str(mdg)
        except Exception:  # noqa: BLE001  printing is not a clause of C24, leaving the container alone is
            pass
        tr.probe("printed_in_between")
        tr.op("repr", "ok", changing=False)
        check("printing the container")

    ops = [
        Op("repr", 1, op_repr),
        Op("twin_noise", 1, op_twin_noise),
        Op("copy", 1, op_copy),
        Op("add_subdomains", 6, op_add, core=True),
        Op("add_interface", 5, op_add_interface, enabled=lambda: len(subs) >= 2, core=True),
        Op("remove_subdomain", 4, op_remove, enabled=lambda: bool(subs), core=True),
        Op("replace_subdomain", 3, op_replace_sd, enabled=lambda: bool(subs)),
        Op("replace_mortar", 1, op_replace_mortar, enabled=lambda: bool(real_intf)),
        Op("replace_both_ends", 1, op_replace_both_ends, enabled=lambda: bool(real_intf) and not crossing),
        Op("reject", 2, op_reject, enabled=lambda: bool(subs)),
    ]
    obs = Observer(ch, tr)
    check("construction")
    run_history(ch, tr, ops, 3, 18 if len(subs) < 8 else 8, diagnose=lambda w: check(w, force=True))
    check("the end of the history", force=True)
    tr.emit("end", len(subs), len(pair))


WORKLOADS = [
    Workload(
        name="history", run=run_history_c24, runs={"quick": 12_000, "thorough": 400_000}, chunk=100, run_timeout=120.0,
        real=["porepy.grids.md_grid.MixedDimensionalGrid (add_subdomains, add_interface, remove_subdomain, replace_subdomains_and_interfaces, all listing/navigation queries, argsort_grids)",
              "pp.BoundaryGrid, pp.MortarGrid (update_mortar/update_primary/update_secondary on meshed interfaces), pp.meshing.cart_grid, pp.refinement.remesh_1d"],
        stub=["synthetic interfaces use MortarGrid objects without projections (container-level operations only)"],
    ),
]
DETERMINISM_RUNS = 400

MANIFEST = {
    "engine": "history",
    "technique": "deterministic simulation (history-only): seeded search over add/add-interface/remove/replace/rejected-call sequences with stepwise refinement against a set+dict graph model; minimised replay",
    "design_ref": "DESIGN.md section 5 (C24)",
    "level_text": (
        "Seeded exploration of container histories: after every operation all listings (with dim/codim filters), both pair maps, "
        "neighbour queries, boundary grids and data-dictionary identity are compared with a graph model. Thousands of histories "
        "per quick run, hundreds of thousands per thorough run. Sampling, not proof."
    ),
    "level_note": "Trusted: the graph model; grids are 1-4 cell Cartesian/point grids plus three meshed 2d fracture configurations.",
}
