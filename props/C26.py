"""C26 — Mortar projections conserve extensive and preserve intensive quantities.

Engine B history machine on real ``MortarGrid`` / ``match_grids`` /
``MixedDimensionalGrid.replace_subdomains_and_interfaces``: a 2-d domain with one
fracture (matching Cartesian start).  Every update composes with the stored projections,
so what the projections are depends on the *order* of replacements: the seed decides a
sequence of mortar-side / secondary / primary replacements with random, non-matching
refinements, and the algebraic invariants of the statement are checked per mortar side
after every step.
"""

from __future__ import annotations

import numpy as np
import scipy.sparse as sps

import porepy as pp
from engines.history import Observer, Op, run_history
from simkit.runner import Workload
from simkit.trace import Trace, Violation

ID = "C26"
LEVEL = "exploration"
RULE = (
    "each run = one fractured 2-d grid (fracture through the whole domain or ending inside it; matching start) and a seeded "
    "history of replacements: mortar side grids (one or both sides, uniform or perturbed non-matching 1-d grids), the 1-d "
    "fracture grid (non-matching at most once per interface, as update_secondary documents), the 2-d grid (other Cartesian "
    "resolutions); after construction and after every step, per mortar side: integrated maps preserve totals, averaged maps "
    "send constants to constants, transposes agree, entries are non-negative, mortar measure equals the fracture measure. "
    "Non-trivial = at least 3 applied replacements; distinct = distinct sequence of (replacement kind, matching/non-matching, sides)."
    " Since the second session: both neighbours replaced in one call, rejected mortar replacements, 1-d grids with non-monotone numbering, nodes a hair (below the matching tolerance) off the other grid's nodes, pickled / deep-copied interfaces, printing, the nd > 1 variants of all eight maps; drawn observation frequency; workload history3d covers the match_2d path on a gmsh simplex grid."
)
STATE_ABSTRACTION = "(mortar cells per side capped at 8, secondary cells capped at 8, primary fracture faces capped at 10, mortar non-matching flag, secondary replaced flag)"
ASSUMPTIONS = [
    "2-d domain [0,2]x[0,2], one horizontal fracture at y=1 (x in [0,2] or [0,1]); the primary grid is replaced by Cartesian grids conforming to it",
    "the secondary grid is replaced by a non-matching grid at most once per interface (documented limit of update_secondary); further replacements use copies",
    "tolerance 1e-10 on sums, 1e-12 on transposes",
]
PROBES = ["mortar_nonmatching", "mortar_one_side_only", "mortar_perturbed_nodes", "secondary_refined", "secondary_copy", "primary_refined", "primary_coarser",
          "primary_after_nonmatching_mortar", "secondary_after_nonmatching_mortar", "mortar_after_primary", "three_kinds_in_one_run", "immersed_tip", "ge_4_replacements", "mortar_sides_given_in_other_order", "mortar_nonmatching_3d", "secondary_refined_3d", "grid_1d_non_monotone_numbering", "observation_sparse", "observation_end", "both_neighbours_in_one_call", "rejected_mortar_replacement", "nodes_within_tolerance_of_other_grid", "interface_pickled_or_deep_copied", "printed_in_between"]

TOL = 1e-9


def side_blocks(intf):
    out = []
    start = 0
    for side, g in intf.side_grids.items():
        out.append((side, g, slice(start, start + g.num_cells)))
        start += g.num_cells
    return out


def check_interface(mdg, intf, frac_len, where, tr, pair=None):
    hi, lo = pair if pair is not None else mdg.interface_to_subdomain_pair(intf)
    covered_faces = np.where(hi.tags["fracture_faces"])[0]
    P_int = intf.primary_to_mortar_int().tocsr()
    P_avg = intf.primary_to_mortar_avg().tocsr()
    S_int = intf.secondary_to_mortar_int().tocsr()
    S_avg = intf.secondary_to_mortar_avg().tocsr()
    nm = intf.num_cells
    if P_int.shape != (nm, hi.num_faces) or P_avg.shape != (nm, hi.num_faces) or S_int.shape != (nm, lo.num_cells) or S_avg.shape != (nm, lo.num_cells):
        raise Violation("projection_shapes", f"after {where}: shapes P_int {P_int.shape} P_avg {P_avg.shape} S_int {S_int.shape} S_avg {S_avg.shape} for {nm} mortar cells, {hi.num_faces} primary faces, {lo.num_cells} secondary cells")
    for name, M in (("primary_to_mortar_int", P_int), ("primary_to_mortar_avg", P_avg), ("secondary_to_mortar_int", S_int), ("secondary_to_mortar_avg", S_avg)):
        if M.nnz and M.data.min() < -1e-14:
            raise Violation("entries_nonnegative", f"after {where}: {name} has negative entry {M.data.min()}")
    # the vector-valued variants (nd > 1) are the scalar maps applied component by component
    for nd in (2, 3):
        for name, M1 in (("primary_to_mortar_int", P_int), ("primary_to_mortar_avg", P_avg), ("secondary_to_mortar_int", S_int), ("secondary_to_mortar_avg", S_avg)):
            Mn = sps.csr_matrix(getattr(intf, name)(nd))
            ref = sps.kron(M1, sps.identity(nd), format="csr")
            if Mn.shape != ref.shape or abs(Mn - ref).sum() > 1e-12:
                raise Violation("integrated_preserves_totals" if name.endswith("int") else "averaged_maps_constants", f"after {where}: {name}(nd={nd}) is not the scalar map applied per component (shape {Mn.shape}, expected {ref.shape})", "vector_variant_differs")
        for name in ("mortar_to_primary_int", "mortar_to_primary_avg", "mortar_to_secondary_int", "mortar_to_secondary_avg"):
            Mn = sps.csr_matrix(getattr(intf, name)(nd))
            ref = sps.kron(sps.csr_matrix(getattr(intf, name)()), sps.identity(nd), format="csr")
            if Mn.shape != ref.shape or abs(Mn - ref).sum() > 1e-12:
                raise Violation("transposes", f"after {where}: {name}(nd={nd}) is not the scalar map applied per component", "vector_variant_differs")
    # transposes
    for a, b, nm_ in (
        (intf.mortar_to_primary_int(), P_avg.T, "mortar_to_primary_int == primary_to_mortar_avg.T"),
        (intf.mortar_to_primary_avg(), P_int.T, "mortar_to_primary_avg == primary_to_mortar_int.T"),
        (intf.mortar_to_secondary_int(), S_avg.T, "mortar_to_secondary_int == secondary_to_mortar_avg.T"),
        (intf.mortar_to_secondary_avg(), S_int.T, "mortar_to_secondary_avg == secondary_to_mortar_int.T"),
    ):
        if a.shape != b.shape:
            raise Violation("transposes", f"after {where}: {nm_} violated (shapes {a.shape} vs {b.shape})")
        d = (sps.csr_matrix(a) - sps.csr_matrix(b))
        if d.nnz and np.max(np.abs(d.data)) > 1e-12:
            raise Violation("transposes", f"after {where}: {nm_} violated (max diff {np.max(np.abs(d.data))})")
    # per side
    col_tot_primary = np.zeros(hi.num_faces)
    q = np.arange(1, hi.num_faces + 1, dtype=float)  # an extensive face quantity
    for side, g, rows in side_blocks(intf):
        # integrated, primary: every covered face belongs to exactly one side and is distributed completely
        cs = np.asarray(P_int[rows].sum(axis=0)).ravel()
        col_tot_primary += cs
        bad = np.where((np.abs(cs) > TOL) & (np.abs(cs - 1) > TOL))[0]
        if bad.size:
            raise Violation("integrated_preserves_totals", f"after {where}: side {side.name}: primary_to_mortar_int distributes a fraction {cs[bad][:4].tolist()} of primary faces {bad[:4].tolist()} (must be 0 or 1 per side)", "primary_int_colsum")
        # integrated, secondary: every secondary cell is fully distributed on every side
        cs2 = np.asarray(S_int[rows].sum(axis=0)).ravel()
        if np.max(np.abs(cs2 - 1)) > TOL:
            raise Violation("integrated_preserves_totals", f"after {where}: side {side.name}: secondary_to_mortar_int column sums {cs2.tolist()} (must be 1 for each secondary cell)", "secondary_int_colsum")
        # averaged: constants to constants
        rs = np.asarray(P_avg[rows].sum(axis=1)).ravel()
        if np.max(np.abs(rs - 1)) > TOL:
            raise Violation("averaged_maps_constants", f"after {where}: side {side.name}: primary_to_mortar_avg row sums {rs.tolist()} (must be 1)", "primary_avg_rowsum")
        rs2 = np.asarray(S_avg[rows].sum(axis=1)).ravel()
        if np.max(np.abs(rs2 - 1)) > TOL:
            raise Violation("averaged_maps_constants", f"after {where}: side {side.name}: secondary_to_mortar_avg row sums {rs2.tolist()} (must be 1)", "secondary_avg_rowsum")
        # back to the grids: averaged maps from mortar send constants to constants on covered entities
        back = np.asarray(intf.mortar_to_secondary_avg().tocsr()[:, rows].sum(axis=1)).ravel()
        if np.max(np.abs(back - 1)) > TOL:
            raise Violation("averaged_maps_constants", f"after {where}: side {side.name}: mortar_to_secondary_avg row sums {back.tolist()} (must be 1)", "mortar_to_secondary_avg_rowsum")
        # measure
        if abs(float(np.sum(g.cell_volumes)) - frac_len) > 1e-9:
            raise Violation("mortar_measure", f"after {where}: side {side.name}: mortar side measure {float(np.sum(g.cell_volumes))}, fracture measure {frac_len}")
    # totals over both sides
    if np.max(np.abs(col_tot_primary[covered_faces] - 1)) > TOL:
        raise Violation("integrated_preserves_totals", f"after {where}: fracture faces are distributed with total weights {col_tot_primary[covered_faces].tolist()} (must be 1)", "primary_int_total")
    others = np.setdiff1d(np.arange(hi.num_faces), covered_faces)
    if others.size and np.max(np.abs(col_tot_primary[others])) > TOL:
        raise Violation("integrated_preserves_totals", f"after {where}: non-fracture faces receive weight {col_tot_primary[others].max()}", "primary_int_uncovered")
    tot_m = float(np.sum(P_int @ q))
    if abs(tot_m - float(np.sum(q[covered_faces]))) > 1e-9 * np.sum(q):
        raise Violation("integrated_preserves_totals", f"after {where}: sum over mortar of projected face quantity {tot_m} != sum over covered faces {float(np.sum(q[covered_faces]))}", "primary_int_total")
    back_p = np.asarray(intf.mortar_to_primary_avg().tocsr().sum(axis=1)).ravel()
    if np.max(np.abs(back_p[covered_faces] - 1)) > TOL or (others.size and np.max(np.abs(back_p[others])) > TOL):
        raise Violation("averaged_maps_constants", f"after {where}: mortar_to_primary_avg row sums on fracture faces {back_p[covered_faces].tolist()} (must be 1, and 0 elsewhere)", "mortar_to_primary_avg_rowsum")


def make_mdg(ch):
    full = ch.flag(2, 3)
    nx = ch.choice([2, 4]) if not full else ch.rng(2, 4)
    ny = 2
    fr = [np.array([[0, 2], [1, 1]])] if full else [np.array([[0, 1], [1, 1]])]
    mdg = pp.meshing.cart_grid(fr, [nx, ny], physdims=[2, 2])
    return mdg, full, nx, fr


def renumbered_1d(ch, g, tr):
    """The same 1-d grid with its cells and nodes numbered in a drawn order (e.g. a locally refined grid whose new
    cells and nodes were appended at the end): a valid grid; nothing in the API asks for monotone numbering."""
    import scipy.sparse as sps

    nn, nc = g.num_nodes, g.num_cells
    pn = np.array(ch.shuffle(list(range(nn))))  # new node k = old node pn[k]
    pc = np.array(ch.shuffle(list(range(nc))))  # new cell k = old cell pc[k]
    if np.all(np.diff(pn) > 0) and np.all(np.diff(pc) > 0):
        return g
    nodes = g.nodes[:, pn].copy()
    inv_n = np.argsort(pn)
    cf = g.cell_faces.tocsc()  # faces = nodes in 1-d
    rows, cols, data = [], [], []
    for k in range(nc):
        c = pc[k]
        sl = slice(cf.indptr[c], cf.indptr[c + 1])
        rows.extend(inv_n[cf.indices[sl]].tolist())
        cols.extend([k] * (sl.stop - sl.start))
        data.extend(cf.data[sl].tolist())
    cell_faces = sps.csc_matrix((np.array(data), (np.array(rows), np.array(cols))), shape=(nn, nc))
    face_nodes = sps.identity(nn, format="csc", dtype=bool)
    ng = pp.Grid(1, nodes, face_nodes, cell_faces, "renumbered 1d grid")
    ng.compute_geometry()
    for tag in pp.utils.tags.standard_face_tags():
        ng.tags[tag] = g.tags[tag][pn].copy()
    ng.update_boundary_node_tag()
    tr.probe("grid_1d_non_monotone_numbering")
    return ng


def new_side_grid(ch, g, tr):
    n = ch.rng(2, 7)
    ng = pp.refinement.remesh_1d(g, n)
    renumber = n > 2 and ch.flag(1, 3)
    if n > 2 and ch.flag(1, 3):
        # move interior nodes along the (horizontal) fracture: a non-uniform, non-nested grid on the same segment;
        # each node moves by less than 0.3 of the smaller neighbouring gap, so the ordering is kept
        x0 = ng.nodes[0].copy()
        x = x0.copy()
        for j in range(1, n - 1):
            gap = min(abs(x0[j] - x0[j - 1]), abs(x0[j + 1] - x0[j]))
            x[j] = x0[j] + (ch.unit() - 0.5) * 0.6 * gap
        ng.nodes[0] = x
        ng.compute_geometry()
        tr.probe("mortar_perturbed_nodes")
    elif n > 2 and ch.flag(1, 4):
        # slivers: interior nodes a hair (4e-7, below the matching tolerance 1e-6) off their equispaced positions, which
        # often coincide with nodes of the grid on the other side: overlaps shorter than the tolerance are still overlaps
        ng.nodes[0, 1:-1] += 4.0e-7 * (1 if ch.flag() else -1)
        ng.compute_geometry()
        tr.probe("nodes_within_tolerance_of_other_grid")
    if renumber:
        ng = renumbered_1d(ch, ng, tr)
    return ng, n


def run_history_c26(ch, tr: Trace) -> None:
    with ch.span("config"):
        mdg, full, nx0, fr = make_mdg(ch)
    intf = mdg.interfaces()[0]
    frac_len = 2.0 if full else 1.0
    if not full:
        tr.probe("immersed_tip")
    state = {"mortar_nonmatching": False, "secondary_replaced": False, "kinds": set(), "n": 0, "primary_replaced": False}
    tr.emit("config", "full" if full else "tip", nx0)
    obs = Observer(ch, tr)
    check_interface(mdg, intf, frac_len, "construction (matching)", tr)
    last_where = ["construction (matching)"]

    def after(kind, where):
        state["kinds"].add(kind)
        state["n"] += 1
        if len(state["kinds"]) == 3:
            tr.probe("three_kinds_in_one_run")
        if state["n"] >= 4:
            tr.probe("ge_4_replacements")
        hi, lo = mdg.interface_to_subdomain_pair(intf)
        tr.state((min(intf.num_cells // 2, 8), min(lo.num_cells, 8), min(int(hi.tags["fracture_faces"].sum()), 10), state["mortar_nonmatching"], state["secondary_replaced"]))
        last_where[0] = where
        if obs.due():
            check_interface(mdg, intf, frac_len, where, tr)

    def guarded(what, fn):
        try:
            fn()
        except Violation:
            raise
        except Exception as e:  # noqa: BLE001  a replacement by a conforming grid must be carried out
            raise Violation("replacement_completes", f"{what} raised {e!r}", "replacement_raised_" + what.split()[0])

    def op_mortar():
        sides = list(intf.side_grids.items())
        both = ch.flag(2, 3)
        chosen = ch.shuffle(sides) if both else [ch.choice(sides)]  # the order of the dict handed in is the caller's choice
        if both and chosen[0][0] != sides[0][0]:
            tr.probe("mortar_sides_given_in_other_order")
        new = {}
        desc = []
        for s, g in chosen:
            ng, n = new_side_grid(ch, g, tr)
            new[s] = ng
            desc.append((s.name, n))
        if not both:
            tr.probe("mortar_one_side_only")
        handed = dict(new)
        guarded("mortar replacement", lambda: mdg.replace_subdomains_and_interfaces(interface_map={intf: handed}))
        if ch.flag(1, 3):
            handed.clear()  # the caller reuses the dictionary it passed
        state["mortar_nonmatching"] = True
        tr.probe("mortar_nonmatching")
        if state["primary_replaced"]:
            tr.probe("mortar_after_primary")
        tr.op("replace_mortar", "ok", desc)
        after("mortar", f"replacing mortar side grids {desc}")

    def op_secondary():
        hi, lo = mdg.interface_to_subdomain_pair(intf)
        if state["secondary_replaced"]:
            ng = lo.copy()
            tr.probe("secondary_copy")
            desc = "copy"
        else:
            n = ch.rng(2, 8)
            ng = pp.refinement.remesh_1d(lo, n)
            desc = f"remesh({n})"
            if n > 2 and ch.flag(1, 3):
                ng = renumbered_1d(ch, ng, tr)
                desc += "+renumbered"
            state["secondary_replaced"] = True
            tr.probe("secondary_refined")
        if state["mortar_nonmatching"]:
            tr.probe("secondary_after_nonmatching_mortar")
        guarded("secondary replacement", lambda: mdg.replace_subdomains_and_interfaces(sd_map={lo: ng}))
        tr.op("replace_secondary", "ok", desc)
        after("secondary", f"replacing the 1-d grid by {desc}")

    def op_primary():
        hi, lo = mdg.interface_to_subdomain_pair(intf)
        nx = ch.choice([2, 4, 6]) if not full else ch.rng(2, 6)
        ny = ch.choice([2, 4])
        g_new = pp.meshing.cart_grid(fr, [nx, ny], physdims=[2, 2]).subdomains(dim=2)[0]
        old_n = int(hi.tags["fracture_faces"].sum())
        new_n = int(g_new.tags["fracture_faces"].sum())
        tr.probe("primary_refined" if new_n >= old_n else "primary_coarser")
        if state["mortar_nonmatching"]:
            tr.probe("primary_after_nonmatching_mortar")
        guarded("primary replacement", lambda: mdg.replace_subdomains_and_interfaces(sd_map={hi: g_new}))
        state["primary_replaced"] = True
        tr.op("replace_primary", "ok", nx, ny)
        after("primary", f"replacing the 2-d grid by cart_grid([{nx},{ny}])")

    def op_both_neighbours():
        """One call replacing both neighbours of the interface (the order of the map entries is the caller's)."""
        hi, lo = mdg.interface_to_subdomain_pair(intf)
        nx = ch.choice([2, 4, 6]) if not full else ch.rng(2, 6)
        ny = ch.choice([2, 4])
        hi_new = pp.meshing.cart_grid(fr, [nx, ny], physdims=[2, 2]).subdomains(dim=2)[0]
        if state["secondary_replaced"]:
            lo_new = lo.copy()
            desc = "copy"
        else:
            n = ch.rng(2, 8)
            lo_new = pp.refinement.remesh_1d(lo, n)
            state["secondary_replaced"] = True
            desc = f"remesh({n})"
        entries = [(hi, hi_new), (lo, lo_new)]
        if ch.flag():
            entries.reverse()
        guarded("both-neighbours replacement", lambda: mdg.replace_subdomains_and_interfaces(sd_map=dict(entries)))
        state["primary_replaced"] = True
        tr.probe("both_neighbours_in_one_call")
        tr.op("replace_both", "ok", [e[0].dim for e in entries], nx, ny, desc)
        after("both", f"replacing both neighbours in one call (order {[e[0].dim for e in entries]}; 2-d by cart_grid([{nx},{ny}]), 1-d by {desc})")

    def op_rejected_mortar():
        """A mortar replacement the API documents as raising (a side grid of the wrong dimension), given *after* a valid
        side in the caller's dict: the call must fail and leave the interface as it was."""
        sides = list(intf.side_grids.items())
        if len(sides) < 2:
            return
        chosen = ch.shuffle(sides)
        good, _ = new_side_grid(ch, chosen[0][1], tr)
        bad = pp.CartGrid([2, 2]) if ch.flag() else pp.PointGrid(np.zeros(3))
        bad.compute_geometry()
        new = {chosen[0][0]: good, chosen[1][0]: bad}
        n_before = {s: g.num_cells for s, g in intf.side_grids.items()}
        try:
            mdg.replace_subdomains_and_interfaces(interface_map={intf: new})
        except ValueError:
            tr.probe("rejected_mortar_replacement")
            tr.op("replace_mortar", "rejected", bad.dim, changing=False)
            if {s: g.num_cells for s, g in intf.side_grids.items()} != n_before:
                raise Violation("rejected_replacement_leaves_interface_unchanged", f"the rejected mortar replacement (second side of dimension {bad.dim}) changed the side grids: cells per side {n_before} -> { {s: g.num_cells for s, g in intf.side_grids.items()} }")
            try:
                check_interface(mdg, intf, frac_len, f"a rejected mortar replacement (second side of dimension {bad.dim})", tr)
            except Violation as v:
                raise Violation(v.inv, v.msg, "after_rejected_mortar_replacement")
            return
        raise Violation("invalid_call_rejected", f"a mortar replacement with a side grid of dimension {bad.dim} for a 1-d interface was accepted")

    def op_repr():
        try:
            repr(intf)
            str(intf)
            repr(mdg)
        except Exception:  # noqa: BLE001
            pass
        tr.probe("printed_in_between")
        tr.op("repr", "ok", changing=False)
        if obs.due():
            check_interface(mdg, intf, frac_len, last_where[0] + ", after printing the interface", tr)

    def op_pickle():
        """The interface as restored from a pickle (or deep-copied) must carry the same projections."""
        import copy
        import pickle

        hi, lo = mdg.interface_to_subdomain_pair(intf)
        clone = pickle.loads(pickle.dumps(intf)) if ch.flag() else copy.deepcopy(intf)
        tr.probe("interface_pickled_or_deep_copied")
        tr.op("pickle", "ok", changing=False)
        try:
            check_interface(mdg, clone, frac_len, last_where[0] + ", on a pickled / deep-copied interface", tr, pair=(hi, lo))
        except Violation as v:
            raise Violation(v.inv, v.msg, "restored_interface_differs")

    ops = [Op("replace_mortar", 4, op_mortar, core=True), Op("replace_secondary", 2, op_secondary), Op("replace_primary", 3, op_primary), Op("pickle", 1, op_pickle), Op("repr", 1, op_repr),
           Op("replace_both_neighbours", 2, op_both_neighbours), Op("rejected_mortar", 1, op_rejected_mortar)]
    run_history(ch, tr, ops, 2, 7)
    check_interface(mdg, intf, frac_len, last_where[0] + " (checked at the end of the history)", tr)
    tr.emit("end", state["n"])


# --------------------------------------------------------------------------------------
# 3-d domain, 2-d fracture, simplex grids: the match_2d path of update_mortar / update_secondary
CELL_SIZES = [0.5, 0.35, 0.25, 0.4, 0.3]


def mesh3d(cs, fi):
    mdg, _ = pp.mdg_library.cube_with_orthogonal_fractures("simplex", {"cell_size": cs}, fracture_indices=[fi])
    return mdg


def run_history_c26_3d(ch, tr: Trace) -> None:
    from simkit import envseam

    with ch.span("config"):
        fi = ch.draw(3)
        cs0 = ch.choice(CELL_SIZES)
    tr.emit("config3d", fi, cs0)
    with envseam.scratch():  # gmsh writes its scratch files into the current directory
        mdg = mesh3d(cs0, fi)
        intf = mdg.interfaces()[0]
        state = {"secondary_replaced": False, "n": 0}
        check_interface(mdg, intf, 1.0, "construction (matching, 3d)", tr)

        def other_2d_grid(avoid=None):
            cs = ch.choice([c for c in CELL_SIZES if c != avoid] or CELL_SIZES)
            return mesh3d(cs, fi).subdomains(dim=2)[0], cs

        def guarded(what, fn):
            try:
                fn()
            except Violation:
                raise
            except Exception as e:  # noqa: BLE001
                raise Violation("replacement_completes", f"{what} raised {e!r}", "replacement_raised_3d_" + what.split()[0])

        def op_mortar():
            sides = list(intf.side_grids.items())
            both = ch.flag(2, 3)
            chosen = ch.shuffle(sides) if both else [ch.choice(sides)]
            new = {}
            desc = []
            for s_, _g in chosen:
                g2, cs = other_2d_grid()
                new[s_] = g2.copy()
                desc.append((s_.name, cs))
            handed = dict(new)
            guarded("mortar replacement", lambda: mdg.replace_subdomains_and_interfaces(interface_map={intf: handed}))
            if ch.flag(1, 3):
                handed.clear()  # the caller reuses the dictionary it passed
            tr.probe("mortar_nonmatching_3d")
            tr.op("replace_mortar_3d", "ok", desc)
            state["n"] += 1
            check_interface(mdg, intf, 1.0, f"replacing 2-d mortar side grids {desc}", tr)

        def op_secondary():
            hi, lo = mdg.interface_to_subdomain_pair(intf)
            if state["secondary_replaced"]:
                g2, desc = lo.copy(), "copy"
            else:
                g2, cs = other_2d_grid()
                desc = f"cell_size {cs}"
                state["secondary_replaced"] = True
                tr.probe("secondary_refined_3d")
            guarded("secondary replacement", lambda: mdg.replace_subdomains_and_interfaces(sd_map={lo: g2}))
            tr.op("replace_secondary_3d", "ok", desc)
            state["n"] += 1
            check_interface(mdg, intf, 1.0, f"replacing the 2-d fracture grid by {desc}", tr)

        ops = [Op("replace_mortar_3d", 3, op_mortar, core=True), Op("replace_secondary_3d", 2, op_secondary, core=True)]
        run_history(ch, tr, ops, 2, 5)
    tr.emit("end", state["n"])


WORKLOADS = [
    Workload(
        name="history", run=run_history_c26, runs={"quick": 2_000, "thorough": 150_000}, chunk=50, run_timeout=120.0,
        real=["porepy.grids.mortar_grid.MortarGrid (_init_projections, _set_projections, update_mortar, update_secondary, update_primary, all 8 projection getters)",
              "porepy.grids.match_grids (match_1d, match_grids_along_1d_mortar)", "MixedDimensionalGrid.replace_subdomains_and_interfaces", "pp.meshing.cart_grid, pp.refinement.remesh_1d"],
        stub=["none"],
    ),
    Workload(
        name="history3d", leak_mb=0.2, run=run_history_c26_3d, runs={"quick": 160, "thorough": 8_000}, chunk=10, run_timeout=180.0,
        real=["MortarGrid.update_mortar / update_secondary with 2-d mortars", "porepy.grids.match_grids.match_2d", "gmsh simplex meshes of a unit cube with one orthogonal fracture (pp.mdg_library.cube_with_orthogonal_fractures)"],
        stub=["none"],
    ),
]
DETERMINISM_RUNS = 100

MANIFEST = {
    "engine": "history",
    "technique": "deterministic simulation (history-only): seeded search over sequences of mortar/secondary/primary grid replacements with random non-matching refinements, algebraic projection invariants checked per mortar side after every step; minimised replay",
    "design_ref": "DESIGN.md section 5 (C26)",
    "level_text": (
        "Seeded exploration of replacement histories on real fractured grids: every update composes with the stored "
        "projections, so the order of replacements matters. After each step column sums (integrated), row sums (averaged), "
        "the four transpose identities, non-negativity and the mortar measure are checked per side. Sampling, not proof."
    ),
    "level_note": "Trusted: the invariant checker; 2-d domains with one horizontal fracture (the configuration update_primary is implemented for).",
}
