"""C05 — Degree-of-freedom layout is a bijection under any variable history.

Engine B history machine: real ``pp.ad.EquationSystem`` on a small real md-grid (built by
the Cartesian fracture mesher: 1-4 subdomains of dims 0-2, 0-4 interfaces) vs. a list of
live blocks.  The seed decides the order of create/remove/set/get/query calls and the
rejected calls interleaved with them.
"""

from __future__ import annotations

import numpy as np

import porepy as pp
from engines.history import Observer, Op, run_history
from simkit.runner import Workload
from simkit.trace import Trace, Violation

ID = "C05"
LEVEL = "exploration"
RULE = (
    "each run = one seeded history of create_variables (cells/faces/nodes multiplicities 0-2, random grid subsets in random "
    "order, on subdomains or interfaces) / remove_variables (as Variables, names or md-variables) / set+get of values for "
    "random variable subsets (overwrite and additive, time-step and iterate storage) / rejected calls on one EquationSystem; "
    "after every step the complete layout (blocks, dofs_of, identify_dof for every index, projection_to, num_dofs) is compared "
    "with the model. Non-trivial = at least 3 applied create/remove/set operations or one rejected call; distinct = distinct "
    "sequence of (op kind, outcome, grid-kind, number of grids)."
    " Since the second session the history also contains: questions asked by name, SubSystem(variable_names in the caller's order) checked against the same ordering rules, update_variable_num_dofs() on unchanged grids, printing, a caller that recycles and rewrites its dof_info dictionary, edits the variable lists it was handed and reuses the vectors it passed; per run the layout is checked after every operation, after a random third of them, or only at the end."
)
STATE_ABSTRACTION = "(number of live blocks capped at 8, number of zero-size blocks capped at 3, live names, last op kind)"
ASSUMPTIONS = [
    "subdomain/interface order is whatever mdg.subdomains()/interfaces() return (their sorting is C24's clause)",
    "values are read only for blocks written since their (re-)creation; stale data left by removed variables is not constrained",
]
PROBES = ["observation_sparse", "observation_end", "dofs_recounted_without_grid_change", "subsystem_names_not_in_creation_order", "printed_in_between", "caller_edits_returned_variable_list", "caller_mutates_vector_after_set", "caller_mutates_returned_vector", "zero_size_block", "create_after_remove", "same_name_two_creations", "remove_by_name", "remove_by_md_variable", "remove_by_variable",
          "interface_variable", "face_or_node_dofs", "grids_passed_out_of_order", "additive_write", "subset_set_get", "rejected_duplicate_name",
          "rejected_unknown_variable", "rejected_dof_out_of_range", "rejected_both_grid_kinds", "rejected_no_grids", "rejected_bad_dof_type",
          "layout_ge_6_blocks", "empty_system_after_removals", "rejected_remove_after_live_prefix", "caller_reuses_and_mutates_dof_info_dict"]

NAMES = ["p", "q", "r", "s"]


def build_mdg(ch):
    kind = ch.draw(5)
    nx = [ch.rng(2, 3), 2]
    if kind == 0:
        fr = []
    elif kind == 1:
        fr = [np.array([[0, nx[0]], [1, 1]])]
    elif kind == 2:
        fr = [np.array([[1, 1], [0, 2]])]
    elif kind == 3:
        fr = [np.array([[0, nx[0]], [1, 1]]), np.array([[1, 1], [0, 2]])]
    else:
        fr = [np.array([[0, 1], [1, 1]]), np.array([[nx[0] - 1, nx[0]], [1, 1]])] if nx[0] == 3 else [np.array([[0, 2], [1, 1]])]
    mdg = pp.meshing.cart_grid(fr, nx)
    return kind, mdg


def block_size(grid, dof_info):
    n = grid.num_cells * dof_info.get("cells", 0)
    if isinstance(grid, pp.Grid):
        n += grid.num_faces * dof_info.get("faces", 0) + grid.num_nodes * dof_info.get("nodes", 0)
    return int(n)


def run_history_c05(ch, tr: Trace) -> None:
    with ch.span("config"):
        kind, mdg = build_mdg(ch)
    es = pp.ad.EquationSystem(mdg)
    sds = list(mdg.subdomains())
    intfs = list(mdg.interfaces())
    grid_rank = {g: i for i, g in enumerate(sds + intfs)}
    live: list = []  # dicts: var, name, grid, size, seq
    seq = [0]
    removed_objs: list = []
    written: dict = {}  # (var.id, loc) -> array   (values the model knows are stored for a live variable)
    stored_shape: dict = {}  # (grid, name, loc) -> size of whatever array sits in the data dict (survives removal)
    counter = [0]
    ever_removed = [False]
    tr.emit("config", kind, [(g.dim, g.num_cells) for g in sds], [(g.dim, g.num_cells) for g in intfs])

    def expected_blocks():
        return sorted(live, key=lambda b: (grid_rank[b["grid"]], b["seq"]))

    def label(b):
        return f"{b['name']}@{'sd' if isinstance(b['grid'], pp.Grid) else 'intf'}{grid_rank[b['grid']]}"

    obs = Observer(ch, tr)

    def check_layout(where, force=False):
        if not (force or obs.due()):
            return
        blocks = expected_blocks()
        total = sum(b["size"] for b in blocks)
        if es.num_dofs() != total:
            raise Violation("num_dofs", f"after {where}: num_dofs()={es.num_dofs()} but live blocks sum to {total}: {[(label(b), b['size']) for b in blocks]}")
        off = 0
        owner = []
        for b in blocks:
            try:
                d = es.dofs_of([b["var"]])
            except Exception as e:  # noqa: BLE001
                raise Violation("blocks_contiguous_in_order", f"after {where}: dofs_of({label(b)}) raised {e!r} for a live variable", "dofs_of_raised")
            exp = np.arange(off, off + b["size"])
            if not np.array_equal(d, exp):
                raise Violation(
                    "blocks_contiguous_in_order",
                    f"after {where}: dofs_of({label(b)}) = {d.tolist()} but the block order (subdomains, interfaces, creation) "
                    f"{[(label(x), x['size']) for x in blocks]} puts it at {exp.tolist()}",
                )
            owner += [b] * b["size"]
            off += b["size"]
        # identify_dof for every index (layouts are small)
        idxs = range(total) if total <= 80 else sorted({ch.draw(total) for _ in range(40)} | {0, total - 1})
        for i in idxs:
            try:
                v = es.identify_dof(i)
            except Exception as e:  # noqa: BLE001  a valid index must be answered
                raise Violation("identify_dof", f"after {where}: identify_dof({i}) raised {e!r} for a valid index (num_dofs={total})", "identify_dof_raised")
            if v is not owner[i]["var"]:
                raise Violation("identify_dof", f"after {where}: identify_dof({i}) = {v.name}@{grid_rank[v.domain]} but index {i} lies in the block of {label(owner[i])}")
        # the same questions asked by *name* (a string selects every variable of that name, on any grid)
        starts = {}
        o2 = 0
        for b in blocks:
            starts[id(b)] = o2
            o2 += b["size"]
        for nm in NAMES:
            mine = [b for b in blocks if b["name"] == nm]
            exp_n = np.sort(np.concatenate([np.arange(starts[id(b)], starts[id(b)] + b["size"]) for b in mine])) if mine else np.empty(0, dtype=int)
            try:
                got_n = np.sort(np.asarray(es.dofs_of([nm])))
            except Exception as e:  # noqa: BLE001
                raise Violation("blocks_contiguous_in_order", f"after {where}: dofs_of(['{nm}']) raised {e!r} ({len(mine)} live variables of that name)", "dofs_of_by_name_raised")
            if not np.array_equal(got_n, exp_n):
                raise Violation("blocks_contiguous_in_order", f"after {where}: dofs_of(['{nm}']) = {got_n.tolist()}, the live variables of that name own {exp_n.tolist()}", "dofs_of_by_name")
        # "all variables": the list handed out belongs to the caller, who may edit it
        try:
            lst = es.variables
            if [v for v in lst] and ch.flag(1, 3):
                lst.pop(ch.draw(len(lst)))
                tr.probe("caller_edits_returned_variable_list")
            lst2 = es.get_variables()
            if len(lst2) != len(blocks) or {id(v) for v in lst2} != {id(b["var"]) for b in blocks}:
                raise Violation("num_dofs", f"after {where}: get_variables() lists {len(lst2)} variables, {len(blocks)} are registered", "variable_listing")
            if lst2 and ch.flag(1, 3):
                lst2.clear()
                tr.probe("caller_edits_returned_variable_list")
        except Violation:
            raise
        except Exception as e:  # noqa: BLE001
            raise Violation("num_dofs", f"after {where}: listing the variables raised {e!r}", "variable_listing_raised")
        if len(blocks) >= 6:
            tr.probe("layout_ge_6_blocks")
        if not blocks and ever_removed[0]:
            tr.probe("empty_system_after_removals")
        nz = sum(1 for b in blocks if b["size"] == 0)
        tr.state((min(len(blocks), 8), min(nz, 3), tuple(sorted({b["name"] for b in blocks}))))

    def check_projection():
        blocks = expected_blocks()
        if not blocks:
            return
        sub = ch.subset(blocks, 1)
        sub = ch.shuffle(sub)
        P = es.projection_to([b["var"] for b in sub])
        n = es.num_dofs()
        x = np.arange(n, dtype=float) * 3.0 + 1.0
        idx = np.sort(es.dofs_of([b["var"] for b in sub])) if sub else np.array([], dtype=int)
        # expected indices from the model
        offs = {}
        off = 0
        for b in blocks:
            offs[id(b)] = (off, off + b["size"])
            off += b["size"]
        exp = np.sort(np.concatenate([np.arange(*offs[id(b)]) for b in sub])) if sub else np.array([], dtype=int)
        got = P @ x if P.shape[0] else np.empty(0)
        if P.shape != (exp.size, n) or not np.array_equal(got, x[exp.astype(int)]):
            raise Violation("projection_selects_block_indices", f"projection_to({[label(b) for b in sub]}) has shape {P.shape} and selects {got.tolist()}, expected indices {exp.tolist()}")

    # ------------------------------------------------------------------ operations
    shared_info: dict = {}
    # per run: does the caller recycle (and rewrite) its dof_info dictionary between creations?
    with ch.span("mode"):
        alias_dicts = ch.flag(1, 2)

    def gen_dof_info():
        m = ch.draw(6)
        if m == 0:
            return {"cells": 1}
        if m == 1:
            return {"cells": ch.rng(0, 2)}
        if m == 2:
            return {"faces": ch.rng(0, 2)}
        if m == 3:
            return {"cells": ch.rng(0, 2), "faces": ch.rng(0, 1)}
        if m == 4:
            return {"nodes": ch.rng(0, 1), "cells": ch.rng(0, 1)}
        return {"cells": ch.rng(0, 2), "faces": ch.rng(0, 2), "nodes": ch.rng(0, 2)}

    def op_create():
        name = ch.choice(NAMES)
        on_intf = bool(intfs) and ch.flag(1, 3)
        pool = intfs if on_intf else sds
        grids = ch.shuffle(ch.subset(pool, 1))
        dof_info = gen_dof_info()
        if alias_dicts and ch.flag(1, 2):
            # the caller reuses one dictionary object for several creations and rewrites it in between: the layout of
            # earlier variables is fixed by the multiplicities declared at *their* creation
            if shared_info:
                tr.probe("caller_reuses_and_mutates_dof_info_dict")
            shared_info.clear()
            shared_info.update(dof_info)
            dof_info = shared_info
        clash = any(b["name"] == name and b["grid"] in grids for b in live)
        kwargs = {"interfaces": grids} if on_intf else {"subdomains": grids}
        try:
            mdv = es.create_variables(name, dof_info, **kwargs)
        except KeyError:
            if not clash:
                raise Violation("create_accepts_valid", f"create_variables({name}) on grids {[grid_rank[g] for g in grids]} raised KeyError without a name clash")
            tr.fault("rejected-call", "duplicate_name")
            tr.probe("rejected_duplicate_name")
            tr.op("create", "rejected", name, on_intf, len(grids))
            check_layout("rejected duplicate create")
            return
        if clash:
            raise Violation("duplicate_name_rejected", f"create_variables({name}) accepted although {name} already lives on one of the grids")
        if [grid_rank[g] for g in grids] != sorted(grid_rank[g] for g in grids):
            tr.probe("grids_passed_out_of_order")
        if any(b["name"] == name for b in live):
            tr.probe("same_name_two_creations")
        if ever_removed[0]:
            tr.probe("create_after_remove")
        if on_intf:
            tr.probe("interface_variable")
        if dof_info.get("faces", 0) or dof_info.get("nodes", 0):
            tr.probe("face_or_node_dofs")
        for v, g in zip(mdv.sub_vars, grids):
            if v.domain is not g:
                raise Violation("create_returns_variables_in_order", "sub-variables of the returned md-variable do not follow the grid order passed")
            size = block_size(g, dof_info)
            if size == 0:
                tr.probe("zero_size_block")
            seq[0] += 1
            live.append({"var": v, "name": name, "grid": g, "size": size, "seq": seq[0], "dof_info": dict(dof_info)})
        tr.op("create", "ok", name, "intf" if on_intf else "sd", [grid_rank[g] for g in grids], dict(dof_info))
        check_layout(f"create_variables({name}, {dof_info}, grids={[grid_rank[g] for g in grids]})")

    def op_remove():
        if not live:
            return
        mode = ch.draw(3)
        if mode == 0:
            bs = ch.subset(live, 1)
            arg = [b["var"] for b in ch.shuffle(bs)]
            tr.probe("remove_by_variable")
        elif mode == 1:
            nm = ch.choice(sorted({b["name"] for b in live}))
            bs = [b for b in live if b["name"] == nm]
            arg = [nm]
            tr.probe("remove_by_name")
        else:
            nm = ch.choice(sorted({b["name"] for b in live}))
            kinds = {isinstance(b["grid"], pp.Grid) for b in live if b["name"] == nm}
            if len(kinds) > 1:  # md_variable(name) raises by design for mixed domain kinds
                doms = [b["grid"] for b in live if b["name"] == nm and isinstance(b["grid"], pp.Grid)]
                mdv = es.md_variable(nm, doms)
            else:
                mdv = es.md_variable(nm)
            bs = [b for b in live if any(b["var"] is v for v in mdv.sub_vars)]
            arg = [mdv]
            tr.probe("remove_by_md_variable")
        es.remove_variables(arg)
        for b in bs:
            live.remove(b)
            removed_objs.append(b["var"])
            for loc in ("t", "i"):
                written.pop((b["var"].id, loc), None)
        ever_removed[0] = True
        tr.op("remove", "ok", mode, [label(b) for b in bs])
        check_layout(f"remove_variables({[label(b) for b in bs]})")

    def op_set_get():
        blocks = expected_blocks()
        if not blocks:
            return
        if ch.flag(1, 3):
            sub, arg = blocks, None
        else:
            sub = [b for b in blocks if ch.flag()] or [ch.choice(blocks)]
            arg = [b["var"] for b in ch.shuffle(sub)]
            tr.probe("subset_set_get")
        loc = ch.choice(["t", "i"])
        kwi = {"time_step_index": 0} if loc == "t" else {"iterate_index": 0}
        dkey = pp.TIME_STEP_SOLUTIONS if loc == "t" else pp.ITERATE_SOLUTIONS
        additive = ch.flag(1, 3) and all((b["var"].id, loc) in written for b in sub)
        vals = []
        for b in sub:
            counter[0] += 1
            vals.append(np.arange(b["size"], dtype=float) + 100.0 * counter[0])
        vec = np.concatenate(vals) if vals else np.empty(0)
        handed = vec.copy()
        es.set_variable_values(handed, arg, additive=additive, **kwi)
        if ch.flag(1, 4):
            handed += 5000.0  # the caller reuses its vector: what was written must not be aliased with it
            tr.probe("caller_mutates_vector_after_set")
        for b, v in zip(sub, vals):
            key = (b["var"].id, loc)
            written[key] = written[key] + v if additive else v
        if additive:
            tr.probe("additive_write")
        got = es.get_variable_values(arg, **kwi)
        exp = np.concatenate([written[(b["var"].id, loc)] for b in sub]) if sub else np.empty(0)
        if got.size and ch.flag(1, 4):
            got_seen = got.copy()
            got += 7000.0  # ... and scribbles on what it read
            got = got_seen
            tr.probe("caller_mutates_returned_vector")
        if not np.array_equal(got, exp):
            raise Violation("set_then_get_roundtrip", f"set then get for {[label(b) for b in sub]} ({'additive' if additive else 'overwrite'}, {dkey}): got {got.tolist()}, expected {exp.tolist()}")
        # cross-check: every written live block, read individually and all together in global order
        wl = [b for b in blocks if (b["var"].id, loc) in written]
        if wl:
            got_all = es.get_variable_values([b["var"] for b in wl[::-1]], **kwi)
            exp_all = np.concatenate([written[(b["var"].id, loc)] for b in wl])
            if not np.array_equal(got_all, exp_all):
                raise Violation("get_in_global_order", f"get_variable_values over written blocks {[label(b) for b in wl]} returned {got_all.tolist()}, expected {exp_all.tolist()}")
        tr.op("set_get", "ok", loc, "additive" if additive else "overwrite", [label(b) for b in sub])
        check_layout("set/get")

    def op_query():
        check_projection()
        tr.op("projection", "ok", changing=False)

    def op_reject():
        kind = ch.draw(6)
        try:
            if kind == 0:
                if not removed_objs:
                    return
                # a list whose later entry is unknown: the entries before it are live and are removed before the call
                # is rejected (partial application is what the unchanged code does; the layout must stay a bijection)
                prefix = [b for b in ch.shuffle(live) if ch.flag(1, 3)]
                arg = [b["var"] for b in prefix] + [ch.choice(removed_objs)]
                if prefix:
                    tr.probe("rejected_remove_after_live_prefix")
                try:
                    es.remove_variables(arg)
                finally:
                    # the model follows the documented order of processing: entries before the unknown one are gone
                    gone = [b for b in prefix if b["var"].id not in es._variables]
                    if len(gone) not in (0, len(prefix)):
                        raise Violation("rejected_remove_is_prefix_atomic", f"remove_variables with an unknown last entry removed {len(gone)} of {len(prefix)} preceding live variables")
                    for b in gone:
                        live.remove(b)
                        removed_objs.append(b["var"])
                        for loc in ("t", "i"):
                            written.pop((b["var"].id, loc), None)
                    if gone:
                        ever_removed[0] = True
                nm = "unknown_variable"
            elif kind == 1:
                es.identify_dof(es.num_dofs() + ch.rng(0, 2))
                nm = "dof_out_of_range"
            elif kind == 2:
                es.identify_dof(-1 - ch.rng(0, 2))
                nm = "dof_out_of_range"
            elif kind == 3:
                if not intfs:
                    return
                es.create_variables("z", subdomains=sds[:1], interfaces=intfs[:1])
                nm = "both_grid_kinds"
            elif kind == 4:
                es.create_variables("z")
                nm = "no_grids"
            else:
                es.create_variables("z", {"edges": 1}, subdomains=sds[:1])
                nm = "bad_dof_type"
        except (ValueError, KeyError):
            nm = ["unknown_variable", "dof_out_of_range", "dof_out_of_range", "both_grid_kinds", "no_grids", "bad_dof_type"][kind]
            tr.fault("rejected-call", nm)
            tr.probe("rejected_" + nm)
            tr.op("reject", "rejected", nm, changing=False)
            check_layout(f"rejected call {nm}")
            return
        raise Violation("invalid_call_rejected", f"invalid call {nm} was accepted")

    def op_recount():
        """update_variable_num_dofs() without any change of the grids: the layout must be as before."""
        try:
            es.update_variable_num_dofs()
        except Exception as e:  # noqa: BLE001
            raise Violation("num_dofs", f"update_variable_num_dofs() raised {e!r}", "recount_raised")
        tr.probe("dofs_recounted_without_grid_change")
        tr.op("recount", "ok", changing=False)
        check_layout("update_variable_num_dofs() on unchanged grids", force=True)

    def op_subsystem():
        """A subsystem is an equation system in its own right: same ordering rules over the selected variables."""
        names = sorted({b["name"] for b in live})
        if not names:
            return
        sel = ch.shuffle(ch.subset(names, 1))  # the caller lists the names in an order of its own
        try:
            sub = es.SubSystem(variable_names=list(sel))
        except Exception as e:  # noqa: BLE001
            raise Violation("blocks_contiguous_in_order", f"SubSystem(variable_names={sel}) raised {e!r}", "subsystem_raised")
        blocks = [b for b in expected_blocks() if b["name"] in sel]
        off = 0
        for b in blocks:
            try:
                d = np.asarray(sub.dofs_of([b["var"]]))
            except Exception as e:  # noqa: BLE001
                raise Violation("blocks_contiguous_in_order", f"SubSystem(variable_names={sel}).dofs_of({label(b)}) raised {e!r}", "subsystem_raised")
            exp = np.arange(off, off + b["size"])
            if not np.array_equal(d, exp):
                raise Violation("blocks_contiguous_in_order", f"in SubSystem(variable_names={sel}) dofs_of({label(b)}) = {d.tolist()}, the ordering rules put it at {exp.tolist()} (blocks {[(label(x), x['size']) for x in blocks]})", "subsystem_layout")
            off += b["size"]
        if sub.num_dofs() != off:
            raise Violation("num_dofs", f"SubSystem(variable_names={sel}).num_dofs() = {sub.num_dofs()}, selected blocks sum to {off}", "subsystem_layout")
        if sel != sorted(sel, key=lambda nm: min(b["seq"] for b in live if b["name"] == nm)):
            tr.probe("subsystem_names_not_in_creation_order")
        tr.op("subsystem", "ok", sel, changing=False)
        check_layout("taking a subsystem")

    def op_repr():
        try:
            repr(es)
            str(es)
        except Exception:  # noqa: BLE001  (__str__ of the pinned tree asserts when one name lives on subdomains and interfaces;
            pass           #  printing is not a clause of C05 - only that it leaves the layout alone)
        tr.probe("printed_in_between")
        tr.op("repr", "ok", changing=False)
        check_layout("printing the equation system")

    ops = [
        Op("recount", 1, op_recount, enabled=lambda: bool(live)),
        Op("subsystem", 1, op_subsystem, enabled=lambda: bool(live)),
        Op("repr", 1, op_repr),
        Op("create", 6, op_create, core=True),
        Op("remove", 3, op_remove, enabled=lambda: bool(live), core=True),
        Op("set_get", 3, op_set_get, enabled=lambda: bool(live)),
        Op("projection", 2, op_query, enabled=lambda: bool(live)),
        Op("reject", 2, op_reject),
    ]
    run_history(ch, tr, ops, 3, 22, diagnose=lambda w: check_layout(w, force=True))
    check_layout("the end of the history", force=True)
    tr.emit("end", len(live))


WORKLOADS = [
    Workload(
        name="history", run=run_history_c05, runs={"quick": 15_000, "thorough": 500_000}, chunk=100, run_timeout=60.0,
        real=["porepy.numerics.ad.EquationSystem: create_variables, remove_variables, _append_dofs, _cluster_dofs_gridwise, dofs_of, identify_dof, projection_to, num_dofs, set_variable_values, get_variable_values, md_variable",
              "pp.meshing.cart_grid md-grids (real Grid/MortarGrid/MixedDimensionalGrid ordering)"],
        stub=["none (reference model: list of live blocks sorted by (grid rank, creation sequence))"],
    ),
]
DETERMINISM_RUNS = 400

MANIFEST = {
    "engine": "history",
    "technique": "deterministic simulation (history-only): seeded search over create/remove/set/get/query/rejected-call sequences with stepwise refinement against a list-of-blocks model; minimised replay",
    "design_ref": "DESIGN.md section 5 (C05)",
    "level_text": (
        "Seeded exploration of variable histories on real md-grids: after every operation the full dof layout (every block, "
        "identify_dof for every index, projections, num_dofs) and value round trips are compared with the model. Thousands of "
        "histories per quick run, hundreds of thousands per thorough run. Sampling, not proof."
    ),
    "level_note": "Trusted: the block model (sort by grid rank then creation sequence), the Cartesian fracture mesher for the md-grids.",
}
