"""C09 — Adaptive time stepping hits every scheduled time.

Workload ``tm_walk`` (Engine A0): the real ``pp.TimeManager`` stepped by a stub that
mirrors exactly what ``run_models.run_time_dependent_model`` and
``SolutionStrategy.after_nonlinear_convergence/after_nonlinear_failure`` do to it.  The
*environment* (does the attempt converge, in how many iterations, or fail) is decided by
the seeded chooser: that is the fault sequence of the property.

Workload ``driver`` (Engine A): the same clauses monitored inside the real time loop /
Newton loop / model (see engines/driver_sim.py).
"""

from __future__ import annotations

import numpy as np

import porepy as pp
from simkit.runner import Workload
from simkit.trace import Trace, Violation

ID = "C09"
LEVEL = "fault_enumeration"
RULE = (
    "each run = one seeded (schedule, dt/relax/recomp parameters, per-attempt outcome sequence) walk of the real "
    "TimeManager under the driver protocol; outcomes are 'converged in k iterations' or the injected fault 'failed'. "
    "Non-trivial = at least 3 accepted steps or at least one injected failure; distinct = distinct sequence of "
    "(attempt outcome class, landed-on-schedule flag) over the walk."
    ' Since the second session: schedules handed over as arrays the caller goes on using, a roll-back mode (time information exported after every accepted step, the same manager set back to an exported level), a second manager stepped in between, printing; workloads driver / driver_mp re-check the clauses inside the real time loop with six model families.'
)
STATE_ABSTRACTION = (
    "(scheduled_idx, recomp_num, is_about_to_hit_schedule, dt class in {=min,=max,inside,<min,>max}, "
    "relation of time+dt to next scheduled point in {<,=,>})"
)
ASSUMPTIONS = [
    "tm_walk drives the real TimeManager through a 12-line stub of the driver protocol (increase_time, "
    "increase_time_index, compute_time_step(iterations=k) | compute_time_step(recompute_solution=True)); the "
    "driver workload re-checks the same clauses in the real loop",
    "schedules have 2-6 points; parameters are those the constructor itself admits; dt_init <= first interval",
    "'hits a scheduled time' is judged with the manager's own rtol/atol",
]
PROBES = [
    "scripted_failure_pattern_streak",
    "scripted_failure_pattern_streak_full",
    "scripted_failure_pattern_alternate",
    "scripted_failure_pattern_landing",
    "scripted_failure_pattern_after_landing",
    "twin_manager_stepped_in_between",
    "rollback_mode",
    "rolled_back",
    "run_reached_final_time",
    "exact_landing_without_correction",
    "isclose_no_correction_branch",
    "step_back_S5",
    "clamp_dt_min",
    "clamp_dt_max",
    "shortened_below_dt_min",
    "budget_exhausted_raise",
    "fail_at_dt_min_raise",
    "iters_gt_iter_max",
    "fail_right_after_fail",
    "fail_on_schedule_landing_step",
    "fail_on_first_attempt",
    "fail_on_final_step",
    "constant_dt_walk",
    "attempt_cap_reached",
]

MAX_ATTEMPTS = 400
EPS = np.finfo(float).eps


# --------------------------------------------------------------------------------------
# generation
def gen_schedule(ch):
    n = ch.rng(2, 6)
    fam = ch.draw(3)
    if fam == 0:  # multiples of 1/8: exactly representable
        t = ch.draw(17) / 8.0
        pts = [t]
        for _ in range(n - 1):
            t = t + ch.rng(1, 16) / 8.0
            pts.append(t)
    elif fam == 1:  # decimal values: 'dirty' floats
        k = ch.draw(21)
        ks = [k]
        for _ in range(n - 1):
            k = k + ch.rng(1, 20)
            ks.append(k)
        pts = [0.1 * k for k in ks]
    else:  # uniform floats
        t = ch.unit() * 2.0 if ch.flag() else 0.0
        pts = [t]
        for _ in range(n - 1):
            t = t + 0.05 + ch.unit() * 2.0
            pts.append(t)
    return fam, pts


def gen_params(ch):
    """Returns kwargs for TimeManager or None if the constructor rejects after a few tries."""
    for _try in range(6):
        fam, sched = gen_schedule(ch)
        first = sched[1] - sched[0]
        total = sched[-1] - sched[0]
        constant = ch.flag(1, 8)
        if constant:
            # dt that divides all intervals: only family 0/1 give compatible ones
            m = ch.choice([1, 2, 4, 8])
            if fam == 0:
                dt = 1.0 / 8.0 * ch.choice([1, 2]) if m > 1 else 1.0 / 8.0
            elif fam == 1:
                dt = 0.1
            else:
                dt = first
                sched = [sched[0], sched[0] + dt * ch.rng(1, 6)]
            kw = dict(schedule=sched, dt_init=dt, constant_dt=True)
        else:
            mode = ch.draw(4)
            if mode == 0:  # divides the first interval exactly
                dt_init = first / ch.rng(1, 4)
            elif mode == 1:  # divides some later interval / the whole
                j = ch.draw(len(sched) - 1)
                dt_init = (sched[j + 1] - sched[j]) / ch.rng(1, 4)
            elif mode == 2:
                dt_init = first * (0.05 + 0.95 * ch.unit())
            else:
                dt_init = first
            if dt_init > first:
                dt_init = first
            if ch.flag(1, 6):
                dmm = None
            else:
                lo = dt_init / ch.choice([2, 1, 4, 10, 50, 3, 1.5])
                hi = dt_init * ch.choice([1, 1, 2, 4, 10, 100])
                dmm = (lo, hi)
            under = ch.choice([0.7, 0.3, 0.5, 0.9, 0.99])
            over = ch.choice([1.3, 1.1, 2.0, 3.0, 1.01])
            iter_max = ch.rng(1, 15)
            hi_opt = ch.rng(0, iter_max)
            lo_opt = ch.rng(0, hi_opt)
            kw = dict(
                schedule=sched,
                dt_init=dt_init,
                constant_dt=False,
                dt_min_max=dmm,
                iter_max=iter_max,
                iter_optimal_range=(lo_opt, hi_opt),
                iter_relax_factors=(under, over),
                recomp_factor=ch.choice([0.5, 0.1, 0.25, 0.9]),
                recomp_max=ch.rng(1, 6),
            )
        # the schedule may be handed over as a numpy array that the caller goes on using (rescaled, shifted for the next
        # stage): the manager's schedule must be its own
        as_array = ch.flag(1, 4)
        kw_call = dict(kw)
        if as_array:
            buf = np.array(sched, dtype=float)
            kw_call["schedule"] = buf
        # (the pair arguments are annotated as tuples; handing over lists and mutating them is outside the signature and is
        # not generated: the unchanged manager keeps a reference to such a list)
        try:
            tm = pp.TimeManager(**kw_call)
        except ValueError:
            continue
        if as_array:
            buf *= 3.0
            buf += 1.0
        # keep the walk bounded: the property's own bound on accepted steps
        if not constant:
            dt_min = tm.dt_min_max[0]
            if total / dt_min > 250:
                continue
        else:
            if total / dt > 250:
                continue
        return kw, tm
    return None, None


# --------------------------------------------------------------------------------------
# oracle helpers (shared with the driver engine)
def close(tm, a, b) -> bool:
    return bool(abs(a - b) <= tm.atol + tm.rtol * abs(b))


def abstract_state(tm):
    if tm.is_constant:
        return ("const", tm._scheduled_idx)
    dt, (lo, hi) = tm.dt, tm.dt_min_max
    if dt == lo:
        c = "=min"
    elif dt == hi:
        c = "=max"
    elif dt < lo:
        c = "<min"
    elif dt > hi:
        c = ">max"
    else:
        c = "in"
    idx = min(max(int(tm._scheduled_idx), 0), len(tm.schedule) - 1)  # observation only: tolerate a corrupted cursor
    nxt = tm.schedule[idx]
    s = tm.time + tm.dt
    rel = "=" if close(tm, s, nxt) else ("<" if s < nxt else ">")
    return (tm._scheduled_idx, tm._recomp_num, tm._is_about_to_hit_schedule, c, rel)


class ClockOracle:
    """Clause-by-clause monitor of C09 over the recorded walk.

    The engine reports ``attempt(t, dt)`` before each solve, ``accepted(t)`` after a
    converged one, ``failed(t_after)`` / ``raised(exc)`` after a failed one and ``end()``.
    """

    def __init__(self, tm, tr: Trace, prop: str | None = None):
        self.tm = tm
        self.tr = tr
        self.prop = prop
        self.sched = [float(s) for s in tm.schedule]
        self.t_final = self.sched[-1]
        self.accepted = [float(tm.time)]
        self.hit = [close(tm, self.accepted[0], s) for s in self.sched]
        self.consec_fail = 0
        self._rewind_scale = 0.0
        self.last_attempt_dt = None
        self.n_attempts = 0
        self.accepted_since_last_fault = 0

    def _v(self, inv, msg, sig=None):
        raise Violation(inv, msg, sig, prop=self.prop)

    def _lands_on_schedule(self, t) -> bool:
        return any(close(self.tm, t, s) for s in self.sched)

    def attempt(self, t0: float, dt: float) -> None:
        """Called with the clock *before* increase_time and the dt about to be used."""
        tm = self.tm
        self.n_attempts += 1
        self.last_attempt_dt = dt
        if not (dt > 0):
            self._v("dt_positive", f"attempt #{self.n_attempts} at t={t0!r} uses dt={dt!r} <= 0; schedule={self.sched}", "dt_nonpositive")
        if not tm.is_constant:
            lo, hi = tm.dt_min_max
            if dt > hi * (1 + 1e-12):
                self._v("dt_le_dt_max", f"attempt #{self.n_attempts} at t={t0!r} uses dt={dt!r} > dt_max={hi!r}")
            if dt < lo * (1 - 1e-12):
                if self._lands_on_schedule(t0 + dt):
                    self.tr.probe("shortened_below_dt_min")
                else:
                    self._v("dt_ge_dt_min_unless_landing", f"attempt #{self.n_attempts} at t={t0!r} uses dt={dt!r} < dt_min={lo!r} and t+dt={t0 + dt!r} is no scheduled time {self.sched}")

    def accepted_step(self, t: float) -> None:
        tm = self.tm
        prev = self.accepted[-1]
        if not (t > prev):
            self._v("times_strictly_increase", f"accepted time {t!r} after {prev!r}; schedule={self.sched}", "time_not_increasing")
        if t > self.t_final and not close(tm, t, self.t_final):
            self._v("never_exceed_final", f"accepted time {t!r} exceeds final time {self.t_final!r} (previous accepted {prev!r}); schedule={self.sched}", "overshoot_final")
        # scheduled times strictly between prev and t that are matched by neither
        for i, s in enumerate(self.sched):
            if close(tm, t, s):
                self.hit[i] = True
            elif not self.hit[i] and prev < s < t:
                self._v("every_scheduled_time_hit", f"scheduled time {s!r} stepped over: accepted {prev!r} -> {t!r}; schedule={self.sched}", "schedule_point_skipped")
        self.accepted.append(t)
        self.consec_fail = 0
        self.accepted_since_last_fault += 1
        # bounded liveness: from the property's own clauses, the number of accepted steps is at most
        # (T - t0)/dt_min + #schedule points (each step is >= dt_min or lands on a scheduled time)
        if not tm.is_constant:
            bound = (self.t_final - self.accepted[0]) / tm.dt_min_max[0] + len(self.sched) + 2
        else:
            bound = (self.t_final - self.accepted[0]) / tm.dt_init + len(self.sched) + 2
        if len(self.accepted) - 1 > bound:
            self._v("progress", f"{len(self.accepted) - 1} accepted steps exceed the bound {bound:.1f} implied by dt_min and the schedule")

    def failed_step(self, t_after: float, dt_attempt: float) -> None:
        prev = self.accepted[-1]
        # the clock is rewound by adding and subtracting dt in floating point: each failed attempt since the last accepted
        # step leaves a rounding error of the order of eps times the magnitudes involved in *that* attempt, and these
        # errors add up over consecutive failures (a first failed attempt with dt = 1 followed by attempts with dt = 0.06)
        scale = max(abs(prev), abs(dt_attempt), abs(prev + dt_attempt))
        self._rewind_scale = (self._rewind_scale if self.consec_fail else 0.0) + scale
        if abs(t_after - prev) > 8 * EPS * self._rewind_scale:
            self._v("failed_step_rewinds_clock", f"after a failed attempt the clock is {t_after!r}, last accepted time is {prev!r}", "rewind_wrong")
        self.consec_fail += 1
        self.accepted_since_last_fault = 0

    def raised(self, exc: Exception, dt_attempt: float) -> None:
        """A ValueError out of the failure handling: legal iff the shadow counters confirm its cause."""
        tm = self.tm
        budget = self.consec_fail >= tm.recomp_max
        at_min = (not tm.is_constant) and dt_attempt == tm.dt_min_max[0]
        if budget:
            self.tr.probe("budget_exhausted_raise")
        elif at_min:
            self.tr.probe("fail_at_dt_min_raise")
        else:
            self._v("raise_only_when_exhausted", f"failure handling raised {exc!r} after {self.consec_fail} consecutive failures (recomp_max={tm.recomp_max}) with dt={dt_attempt!r}, dt_min={tm.dt_min_max[0]!r}")

    def end(self) -> None:
        tm = self.tm
        for i, s in enumerate(self.sched):
            if not self.hit[i]:
                self._v("every_scheduled_time_hit", f"run ended at {self.accepted[-1]!r} but scheduled time {s!r} was never an accepted time; schedule={self.sched}", "schedule_point_skipped")
        if not close(tm, self.accepted[-1], self.t_final):
            self._v("never_exceed_final", f"run ended at {self.accepted[-1]!r}, final time {self.t_final!r}", "overshoot_final")


# --------------------------------------------------------------------------------------
def run_tm_walk(ch, tr: Trace) -> None:
    with ch.span("config"):
        kw, tm = gen_params(ch)
        if kw is None:
            tr.emit("config-rejected")
            return
        # environment model of this run (swarm)
        p_fail_num = 0 if tm.is_constant else ch.choice([0, 1, 3, 6])  # /10
        fault_horizon = ch.choice([MAX_ATTEMPTS, 5, 15, 40])  # no injected failures after this attempt
        aim = ch.flag()  # aim half of the failures at 'interesting' attempts
        k_mode = ch.draw(4)  # iteration-count family
        # roll-back mode: the time information is exported after every accepted step (as the models do) and the same
        # manager is now and then set back to an exported level (set_time_and_dt_from_exported_steps), followed by
        # ordinary converged / failed steps
        rollback = (not tm.is_constant) and ch.flag(1, 20)
        # failure patterns: independent draws (most runs) or a scripted pattern that sits on the boundaries by construction
        pattern = "iid" if tm.is_constant else ch.choice(["iid", "iid", "iid", "streak", "streak_full", "alternate", "landing", "after_landing"])
    tr.emit("config", {k: (list(v) if isinstance(v, (tuple, list, np.ndarray)) else v) for k, v in kw.items()},
            "p_fail", p_fail_num, "horizon", fault_horizon)
    orc = ClockOracle(tm, tr)
    if tm.is_constant:
        tr.probe("constant_dt_walk")
    prev_failed = False
    first = True
    tr.state(abstract_state(tm))
    import contextlib
    from pathlib import Path

    from simkit import envseam

    stack = contextlib.ExitStack()
    exports: list = []  # (time, dt, schedule cursor, about-to-hit flag, number of accepted times) per exported level
    tfile = None
    if rollback:
        tfile = Path(stack.enter_context(envseam.scratch())) / "times.json"
        tm.write_time_information(tfile)
        exports.append((float(tm.time), float(tm.dt), tm._scheduled_idx, tm._is_about_to_hit_schedule, 1))
        tr.probe("rollback_mode")
    with stack:
        _walk(ch, tr, tm, orc, p_fail_num, fault_horizon, aim, k_mode, rollback, exports, tfile, pattern)


def _walk(ch, tr, tm, orc, p_fail_num, fault_horizon, aim, k_mode, rollback, exports, tfile, pattern="iid"):
    prev_failed = False
    first = True
    just_landed = False
    if pattern != "iid":
        tr.probe("scripted_failure_pattern_" + pattern)
    # a second manager of another simulation lives in the same process and is stepped in between (now and then):
    # managers must not share state
    twin = None
    if ch.flag(1, 6):
        try:
            twin = pp.TimeManager(schedule=[0.0, 50.0, 100.0], dt_init=1.0, dt_min_max=(0.01, 20.0), iter_max=9, iter_optimal_range=(2, 4), recomp_max=50)
            tr.probe("twin_manager_stepped_in_between")
        except ValueError:
            twin = None
    while not tm.final_time_reached():
        if orc.n_attempts % 5 == 3:
            try:
                repr(tm)  # printing the manager in between is the most innocent thing a caller can do
                str(tm)
            except Exception:  # noqa: BLE001
                pass
        if twin is not None and not twin.final_time_reached():
            twin.increase_time()
            twin.increase_time_index()
            try:
                if orc.n_attempts % 3 == 2:
                    twin.compute_time_step(recompute_solution=True)
                else:
                    twin.compute_time_step(iterations=1 + orc.n_attempts % 7)
            except ValueError:
                twin = None  # the other simulation gave up (its own budget); nothing to do with the walk under study
        if orc.n_attempts >= MAX_ATTEMPTS:
            tr.probe("attempt_cap_reached")
            tr.emit("cap")
            tr.sim_time += orc.accepted[-1] - orc.accepted[0]
            return
        t0, dt = float(tm.time), float(tm.dt)
        orc.attempt(t0, dt)
        about_before = tm._is_about_to_hit_schedule
        # --- driver protocol, run_models.py time_step() --------------------------------
        tm.increase_time()
        tm.increase_time_index()
        t_att = float(tm.time)
        landing = orc._lands_on_schedule(t_att) and not close(tm, t0, t_att)
        final_step = close(tm, t_att, orc.t_final)
        # --- environment decides the outcome ----------------------------------------------
        with ch.span("attempt"):
            fail = False
            if pattern == "iid":
                if p_fail_num and orc.n_attempts <= fault_horizon:
                    interesting = landing or first or final_step or prev_failed
                    if aim and interesting:
                        fail = ch.flag(min(9, p_fail_num * 2), 10)
                    else:
                        fail = ch.flag(p_fail_num, 10)
            elif orc.n_attempts <= max(fault_horizon, 40):
                if pattern == "streak":  # recomp_max - 1 failures in a row (one short of the budget), then a success, again and again
                    fail = orc.consec_fail < tm.recomp_max - 1
                elif pattern == "streak_full":  # exactly recomp_max failures in a row: the last permitted one, then a success
                    fail = orc.consec_fail < tm.recomp_max and not (orc.consec_fail == tm.recomp_max)
                elif pattern == "alternate":
                    fail = not prev_failed
                elif pattern == "landing":  # every landing attempt (and the final step) fails exactly once
                    fail = (landing or final_step) and not prev_failed
                elif pattern == "after_landing":  # the first attempt after every accepted landing fails
                    fail = just_landed and not prev_failed
            if not fail and not tm.is_constant:
                lo, hi = tm.iter_optimal_range
                if k_mode == 0:
                    k = ch.rng(1, tm.iter_max)
                elif k_mode == 1:
                    k = ch.choice([max(1, lo - 1), lo, hi, hi + 1, tm.iter_max, tm.iter_max + 2])
                elif k_mode == 2:
                    k = max(1, lo)  # always relax
                else:
                    k = ch.choice([(lo + hi) // 2 or 1, tm.iter_max])
        if fail:
            tr.fault("fail", orc.n_attempts)
            if prev_failed:
                tr.probe("fail_right_after_fail")
            if landing:
                tr.probe("fail_on_schedule_landing_step")
            if first:
                tr.probe("fail_on_first_attempt")
            if final_step:
                tr.probe("fail_on_final_step")
            about = tm._is_about_to_hit_schedule
            try:  # solution_strategy.after_nonlinear_failure
                tm.compute_time_step(recompute_solution=True)
            except (IndexError, KeyError, TypeError, AttributeError, ZeroDivisionError) as e:
                raise Violation("failure_handling_completes", f"compute_time_step(recompute_solution=True) raised {e!r} at t={t_att!r}", "tm_unexpected_exception")
            except ValueError as e:
                orc.raised(e, dt)
                tr.op("attempt", "raised", t_att)
                tr.sim_time += orc.accepted[-1] - orc.accepted[0]
                tr.sim_steps += len(orc.accepted) - 1
                return
            if about:
                tr.probe("step_back_S5")
            orc.failed_step(float(tm.time), dt)
            tr.op("attempt", "failed", t_att, float(tm.dt), changing=False)
            prev_failed = True
        else:
            if not tm.is_constant:  # solution_strategy.after_nonlinear_convergence
                if k > tm.iter_max:
                    tr.probe("iters_gt_iter_max")
                pre_dt = tm.dt
                try:
                    tm.compute_time_step(iterations=k)
                except (IndexError, KeyError, TypeError, AttributeError, ZeroDivisionError, ValueError) as e:
                    raise Violation("failure_handling_completes", f"compute_time_step(iterations={k}) raised {e!r} at t={t_att!r}", "tm_unexpected_exception")
                if tm.dt == tm.dt_min_max[0] and pre_dt != tm.dt:
                    tr.probe("clamp_dt_min")
                if tm.dt == tm.dt_min_max[1] and pre_dt != tm.dt:
                    tr.probe("clamp_dt_max")
                if tm._is_about_to_hit_schedule and close(tm, t_att, tm.schedule[tm._scheduled_idx - 1]):
                    tr.probe("isclose_no_correction_branch")
            else:
                k = 0
            if landing and not about_before and not tm.is_constant:
                tr.probe("exact_landing_without_correction")
            orc.accepted_step(t_att)
            tr.op("attempt", "landed" if landing else "conv", t_att, k)
            prev_failed = False
            just_landed = bool(landing)
            if rollback and not tm.final_time_reached():
                tm.write_time_information(tfile)
                exports.append((float(tm.time), float(tm.dt), tm._scheduled_idx, tm._is_about_to_hit_schedule, len(orc.accepted)))
                # candidates: earlier levels exported under the same schedule cursor and flag (the roll-back restores
                # time and dt only; crossing a cursor change is the restart defect noted in DESIGN section 7, outside C09)
                cands = [j for j, e in enumerate(exports[:-1]) if e[2] == tm._scheduled_idx and e[3] == tm._is_about_to_hit_schedule]
                ch.begin("rollback")
                try:
                    do = bool(cands) and ch.flag(1, 4)
                    j = ch.choice(cands) if do else None
                finally:
                    ch.end()
                if do:
                    t_j, dt_j, _, _, n_acc = exports[j]
                    tm.set_time_and_dt_from_exported_steps(j)
                    tm.write_time_information(tfile)  # the restarted model exports the restored level again
                    del exports[j + 1:]
                    if float(tm.time) != t_j or float(tm.dt) != dt_j:
                        raise Violation("failed_step_rewinds_clock", f"roll-back to exported level {j}: time/dt {tm.time!r}/{tm.dt!r}, exported {t_j!r}/{dt_j!r}", "rollback_restores_other_level")
                    del orc.accepted[n_acc:]
                    tr.probe("rolled_back")
                    tr.op("rollback", "ok", j, t_j)
        first = False
        tr.state(abstract_state(tm))
    orc.end()
    tr.sim_time += orc.accepted[-1] - orc.accepted[0]
    tr.sim_steps += len(orc.accepted) - 1
    tr.emit("end", orc.accepted[-1], len(orc.accepted) - 1)


def _driver_run(ch, tr):
    from engines import driver_sim  # imported lazily: driver_sim imports this module for the clock oracle

    return driver_sim.make_run("C09")(ch, tr)


def _driver_mp_run(ch, tr):
    from engines import driver_sim

    return driver_sim.make_run("C09", families=("energy", "mech", "poro", "damage"))(ch, tr)


WORKLOADS = [
    Workload(
        name="driver", leak_mb=0.75, override_cap=32, run=_driver_run, runs={"quick": 160, "thorough": 6_000}, chunk=10, run_timeout=300.0,
        real=["pp.run_time_dependent_model", "pp.NewtonSolver", "SolutionStrategy hooks", "pp.TimeManager", "EquationSystem", "SinglePhaseFlow physics"],
        stub=["fault-injecting overrides of check_convergence / solve_linear_system (pass the real answer through when no fault is due)", "save_data_time_step is a no-op"],
        note="same clock clauses as tm_walk, observed around the real solve in the real time loop",
    ),
    Workload(
        name="driver_mp", leak_mb=0.9, override_cap=12, run=_driver_mp_run, runs={"quick": 32, "thorough": 1_500}, chunk=4, run_timeout=600.0,
        real=["as workload driver, physics = MassAndEnergyBalance / MomentumBalance with contact mechanics / Poromechanics: iteration counts and genuine non-convergence come from contact mechanics"],
        stub=["fault-injecting overrides of check_convergence / solve_linear_system", "save_data_time_step is a no-op"],
    ),
    Workload(
        name="tm_walk",
        run=run_tm_walk,
        runs={"quick": 400_000, "thorough": 20_000_000},
        chunk=2000,
        run_timeout=30.0,
        real=["porepy.numerics.time_step_control.TimeManager (constructor checks, compute_time_step, adaptation, corrections, schedule cursor, step-back)"],
        stub=["12-line driver-protocol loop mirroring run_models.time_step and SolutionStrategy.after_nonlinear_convergence/failure", "environment: per-attempt outcome drawn from the seeded chooser"],
    ),
]

MANIFEST = {
    "engine": "tm_sim + driver_sim",
    "technique": "deterministic simulation: seeded search over schedules, stepping parameters and injected solver-failure sequences against clause-by-clause clock invariants; minimised choice-sequence replay",
    "design_ref": "DESIGN.md section 5 (C09), 2.2 (Engines A0/A)",
    "level_text": (
        "Seeded fault enumeration: every run is one (schedule, parameters, convergence/failure sequence) walk of the real "
        "TimeManager under the driver protocol, with the statement's clauses checked after every attempt and at the end; "
        "10^5 walks per quick run, millions per thorough run, plus the same clauses inside the real time loop. Sampling, not proof."
    ),
    "level_note": (
        "Trusted: the 12-line stub of the driver protocol in tm_walk (re-checked by the driver workload with the real loop), "
        "the manager's own rtol/atol as the meaning of 'hits a scheduled time', the generator's parameter ranges."
    ),
}
DETERMINISM_RUNS = 3000
