"""Engine B — seeded operation-history machines.

A property module builds a ``Machine`` subclass holding the *real* object(s) and a small
reference model; ``run_history`` lets the chooser pick, step by step, which enabled
operation runs next (swarm: each run first disables a random subset of operation kinds
and re-weights the rest), executes it against both, and evaluates the invariants after
every step.  Operations report one of three outcomes:

* applied  -> ``tr.op(kind, "ok", ...)``
* rejected -> the call raised an exception the API documents; recorded as fault
  ``rejected-call``; real state must still satisfy every invariant
* anything else propagates: a ``Violation`` (property broken) or a harness error.
"""

from __future__ import annotations

from typing import Callable, Sequence


class Op:
    __slots__ = ("name", "weight", "fn", "enabled", "core")

    def __init__(self, name: str, weight: int, fn: Callable, enabled: Callable = None, core: bool = False):
        self.name = name
        self.weight = weight
        self.fn = fn
        self.enabled = enabled
        self.core = core  # core ops are never disabled by the swarm mask


def run_history(ch, tr, ops: Sequence[Op], n_min: int, n_max: int, after_step: Callable = None) -> int:
    """Drive ``ops`` for a drawn number of steps. Returns the number of executed steps."""
    with ch.span("swarm"):
        weights = []
        for op in ops:
            if op.core or ch.flag(3, 4):
                weights.append(op.weight * ch.choice([1, 1, 2, 4]))
            else:
                weights.append(0)
        if not any(weights):
            weights = [op.weight for op in ops]
        n_steps = ch.rng(n_min, n_max)
    tr.emit("swarm", [op.name for op, w in zip(ops, weights) if w], n_steps)
    done = 0
    for _ in range(n_steps):
        ch.begin("op")
        try:
            w = [wi if (op.enabled is None or op.enabled()) else 0 for op, wi in zip(ops, weights)]
            if not any(w):
                break
            k = ch.weighted(w)
            ops[k].fn()
        finally:
            ch.end()
        done += 1
        if after_step is not None:
            after_step()
    return done
