"""Engine B — seeded operation-history machines.

A property module builds a ``Machine`` subclass holding the *real* object(s) and a small
reference model; ``run_history`` lets the chooser pick, step by step, which enabled
operation runs next (swarm: each run first disables a random subset of operation kinds
and re-weights the rest), executes it against both, and evaluates the invariants after
every step.  Operations report one of three outcomes:

* applied  -> ``tr.op(kind, "ok", ...)``
* rejected -> the call raised an exception the API documents; recorded as fault
  ``rejected-call``; real state must still satisfy every invariant
* anything else propagates: a ``Violation`` (property broken) or a harness error.
"""

from __future__ import annotations

from typing import Callable, Sequence


class Op:
    __slots__ = ("name", "weight", "fn", "enabled", "core")

    def __init__(self, name: str, weight: int, fn: Callable, enabled: Callable = None, core: bool = False):
        self.name = name
        self.weight = weight
        self.fn = fn
        self.enabled = enabled
        self.core = core  # core ops are never disabled by the swarm mask


def run_history(ch, tr, ops: Sequence[Op], n_min: int, n_max: int, after_step: Callable = None, diagnose: Callable = None) -> int:
    """Drive ``ops`` for a drawn number of steps. Returns the number of executed steps.

    ``diagnose(where)``: the machine's unconditional full check.  With sparse observation (see ``Observer``) an operation
    may meet a real object that is already inconsistent and fail inside real code with an arbitrary exception; before that
    exception is reported as a harness error the full check runs and, if the state disagrees with the model, reports the
    property violation that caused it.
    """
    with ch.span("swarm"):
        weights = []
        for op in ops:
            if op.core or ch.flag(3, 4):
                weights.append(op.weight * ch.choice([1, 1, 2, 4]))
            else:
                weights.append(0)
        if not any(weights):
            weights = [op.weight for op in ops]
        n_steps = ch.rng(n_min, n_max)
    tr.emit("swarm", [op.name for op, w in zip(ops, weights) if w], n_steps)
    done = 0
    for _ in range(n_steps):
        ch.begin("op")
        try:
            w = [wi if (op.enabled is None or op.enabled()) else 0 for op, wi in zip(ops, weights)]
            if not any(w):
                break
            k = ch.weighted(w)
            try:
                ops[k].fn()
            except (AssertionError, LookupError, ValueError, TypeError, AttributeError, ArithmeticError) as e:
                if diagnose is not None:
                    diagnose(f"operation {ops[k].name} failing with {e!r}")
                raise
        finally:
            ch.end()
        done += 1
        if after_step is not None:
            after_step()
    return done


class Observer:
    """How often a run looks at the real object between operations.

    Queries are not always innocent: listing, sorting or looking up can fill or repair caches, so a machine that checks
    after every single operation heals exactly the stale state a realistic regression leaves behind, while a machine
    that never looks in between misses regressions that need a lookup between two mutations.  Every run therefore draws
    one mode: ``every`` (check after each operation), ``sparse`` (after each operation with probability 1/3, decided by
    the chooser) or ``end`` (only at the end of the history).  The final check is unconditional.
    """

    def __init__(self, ch, tr):
        with ch.span("observe"):
            self.mode = ch.choice(["every", "every", "sparse", "end"])
        self.ch = ch
        tr.emit("observe", self.mode)
        if self.mode != "every":
            tr.probe("observation_" + self.mode)

    def due(self) -> bool:
        if self.mode == "every":
            return True
        if self.mode == "end":
            return False
        return self.ch.flag(1, 3)


class Keeper:
    """Results a caller holds on to.  An array handed out by an earlier call belongs to the caller: later calls on the
    same object must not change it (a reused internal result buffer makes every value right at the moment it is returned
    and wrong one call later).  ``keep(obj)`` remembers the returned object itself plus a snapshot; ``verify(where)``
    compares them and raises the violation built by ``make``."""

    def __init__(self, make, limit: int = 3):
        self.items: list = []
        self.make = make
        self.limit = limit

    def keep(self, obj, label: str) -> None:
        import numpy as np

        if isinstance(obj, np.ndarray):
            self.items.append((obj, obj.copy(), label))
            if len(self.items) > self.limit:
                self.items.pop(0)

    def verify(self, where: str) -> None:
        import numpy as np

        for obj, snap, label in self.items:
            if obj.shape != snap.shape or not np.array_equal(obj, snap, equal_nan=True):
                raise self.make(label, where)
