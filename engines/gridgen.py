"""Seeded generators of small grids with mixed cell shapes (for C38).

``mixed_grid_2d``  a lattice of quads in which drawn cells are split into two triangles
                   and drawn horizontal neighbours are merged into hexagons (polygons with
                   6 nodes), built directly from face_nodes / cell_faces;
``grid_3d``        hexahedral Cartesian, tetrahedral, or the polyhedral test grid.
"""

from __future__ import annotations

import numpy as np
import scipy.sparse as sps

import porepy as pp


def grid_from_polygons(nodes: np.ndarray, cells: list, name: str = "mixed 2d") -> pp.Grid:
    """2-d grid from node coordinates (3 x n) and cells given as counter-clockwise node loops."""
    face_of: dict = {}
    faces: list = []
    cf_rows, cf_cols, cf_data = [], [], []
    for c, loop in enumerate(cells):
        k = len(loop)
        for j in range(k):
            a, b = loop[j], loop[(j + 1) % k]
            key = (min(a, b), max(a, b))
            if key not in face_of:
                face_of[key] = len(faces)
                faces.append(key)
                sgn = 1
            else:
                sgn = -1
            cf_rows.append(face_of[key])
            cf_cols.append(c)
            cf_data.append(sgn)
    nf = len(faces)
    fn_rows = np.array([n for f in faces for n in f])
    fn_cols = np.repeat(np.arange(nf), 2)
    fn = sps.csc_matrix((np.ones(2 * nf, dtype=bool), (fn_rows, fn_cols)), shape=(nodes.shape[1], nf))
    cf = sps.csc_matrix((np.array(cf_data), (np.array(cf_rows), np.array(cf_cols))), shape=(nf, len(cells)))
    g = pp.Grid(2, nodes.copy(), fn, cf, name)
    g.compute_geometry()
    return g


def mixed_grid_2d(ch, origin=(0.0, 0.0), force_mixed: bool = False):
    """Returns (grid, description). Cell order is the construction order (deliberately interleaving shapes)."""
    nx, ny = ch.rng(1, 3), ch.rng(1, 2)
    xs = np.arange(nx + 1, dtype=float) + origin[0]
    ys = np.arange(ny + 1, dtype=float) + origin[1]
    nid = lambda i, j: j * (nx + 1) + i  # noqa: E731
    nodes = np.zeros((3, (nx + 1) * (ny + 1)))
    for j in range(ny + 1):
        for i in range(nx + 1):
            nodes[0, nid(i, j)] = xs[i]
            nodes[1, nid(i, j)] = ys[j]
    cells = []
    shapes = []
    mode = ch.draw(4) if not force_mixed else 1 + ch.draw(3)  # 0: quads only
    for j in range(ny):
        i = 0
        while i < nx:
            q = [nid(i, j), nid(i + 1, j), nid(i + 1, j + 1), nid(i, j + 1)]
            what = 0 if mode == 0 else ch.draw(3)
            if what == 1:  # two triangles
                if ch.flag():
                    cells += [[q[0], q[1], q[2]], [q[0], q[2], q[3]]]
                else:
                    cells += [[q[0], q[1], q[3]], [q[1], q[2], q[3]]]
                shapes += ["t", "t"]
                i += 1
            elif what == 2 and i + 1 < nx:  # merge with the right neighbour: hexagon with two mid-edge nodes
                cells.append([nid(i, j), nid(i + 1, j), nid(i + 2, j), nid(i + 2, j + 1), nid(i + 1, j + 1), nid(i, j + 1)])
                shapes.append("h")
                i += 2
            else:
                cells.append(q)
                shapes.append("q")
                i += 1
    if force_mixed and len(set(shapes)) == 1:
        # guarantee at least two shapes: split the first quad / re-merge is not possible for triangles-only
        if shapes[0] == "q" or shapes[0] == "h":
            loop = cells[0]
            if len(loop) == 4:
                cells[0:1] = [[loop[0], loop[1], loop[2]], [loop[0], loop[2], loop[3]]]
                shapes[0:1] = ["t", "t"]
    g = grid_from_polygons(nodes, cells)
    return g, "".join(shapes)


def grid_3d(ch):
    kind = ch.draw(3)
    if kind == 0:
        g = pp.CartGrid([ch.rng(1, 2), 1, ch.rng(1, 2)])
        d = "hex"
    elif kind == 1:
        g = pp.StructuredTetrahedralGrid([1, 1, 1])
        d = "tet"
    else:
        from porepy.applications.test_utils.grids import polytop_grid_3d

        g = polytop_grid_3d()
        d = "poly"
    g.compute_geometry()
    return g, d


def grid_1d(ch, origin=0.0):
    n = ch.rng(1, 4)
    g = pp.CartGrid([n])
    g.nodes[0] += origin
    g.compute_geometry()
    return g, f"line{n}"


def grid_0d(ch, x=0.0):
    g = pp.PointGrid(np.array([x, 0.0, 0.0]))
    g.compute_geometry()
    return g, "pt"
