"""Engine A — the real time loop under injected solver faults.

Real code: ``pp.run_time_dependent_model``, ``pp.NewtonSolver`` (through the official
``params["nonlinear_solver"]`` seam), ``SolutionStrategy`` hooks, ``TimeManager``,
``EquationSystem`` storage, single-phase compressible flow physics on a small
Cartesian md-grid, and (optionally) ``DataSavingMixin``/``Exporter`` on a scratch root.

Harness-owned: the fault-injecting overrides of ``check_convergence`` and
``solve_linear_system`` (both call ``super()`` first and pass the real answer through when
no fault is due), storage-depth properties, and the observation points in
``ObservingNewton.solve``.

Attribution rule: a driver run evaluates the clauses of C08 (window), C09 (clock) and C10
(stored state) at the same observation points, but each clause belongs to exactly one
property.  The run function is built for an *owner*; a tripped clause of the owner is
raised as its violation, a tripped foreign clause is only counted
(``trace.foreign``) and that foreign oracle is switched off for the rest of the run.
"""

from __future__ import annotations

import numpy as np

import porepy as pp
from porepy.applications.md_grids.model_geometries import SquareDomainOrthogonalFractures
from props import C09 as c09
from simkit.trace import Trace, Violation

MAX_ATTEMPTS = 60


class Budget(BaseException):
    """Attempt cap reached while faults still flow: the run ends without a verdict."""


# --------------------------------------------------------------------------------------
class Seams:
    """Every override is a seam or an input knob, not physics; shared by all model families."""

    _sim: "DriverSim"

    # --- physics knobs (inputs, not seams) ------------------------------------------
    def bc_values_pressure(self, bg):
        vals = np.zeros(bg.num_cells)
        sides = self.domain_boundary_sides(bg)
        vals[sides.west] = 1.0 + self._sim.bc_rate * self.time_manager.time
        return vals

    def bc_values_temperature(self, bg):
        vals = np.zeros(bg.num_cells)
        sides = self.domain_boundary_sides(bg)
        vals[sides.south] = 0.5 + 0.25 * self._sim.bc_rate * self.time_manager.time
        return vals

    def bc_type_mechanics(self, sd):
        sides = self.domain_boundary_sides(sd)
        return pp.BoundaryConditionVectorial(sd, sides.south + sides.north, "dir")

    def bc_values_displacement(self, bg):
        vals = np.zeros((self.nd, bg.num_cells))
        sides = self.domain_boundary_sides(bg)
        t = self.time_manager.time
        vals[1, sides.north] = -0.005 * self._sim.bc_rate * t
        vals[0, sides.north] = 0.0025 * self._sim.bc_rate * t
        if self._sim.family == "damage":
            # shear reversals make the damage history evolve
            vals[0, sides.north] = 0.01 * self._sim.bc_rate * np.sin(3.0 * t)
        return vals.ravel("F")

    # --- seams ----------------------------------------------------------------------
    @property
    def time_step_indices(self):
        return np.arange(self._sim.ts_depth)

    @property
    def iterate_indices(self):
        return np.arange(self._sim.it_depth)

    def check_convergence(self, nonlinear_increment, residual, reference_residual, nl_params):
        conv, div = super().check_convergence(nonlinear_increment, residual, reference_residual, nl_params)
        return self._sim.on_check_convergence(self, conv, div)

    def solve_linear_system(self):
        x = super().solve_linear_system()
        return self._sim.on_linear_solve(self, x)

    def save_data_time_step(self):
        self._sim.on_save(self, super().save_data_time_step)

    def after_nonlinear_convergence(self):
        super().after_nonlinear_convergence()
        if getattr(self._sim, "limiter", False):
            es = self.equation_system
            x = es.get_variable_values(time_step_index=0)
            x = np.round(x, 6)  # the limited solution is the accepted one: written to both storages
            es.set_variable_values(x, time_step_index=0, iterate_index=0)
            self._sim.converged_iterate = x.copy()
            self._sim.iterates[-1] = x.copy()  # iterate 0 was rewritten in place, not shifted
            self._sim.tr.probe("limiter_rewrites_accepted_solution")

    def before_nonlinear_loop(self):
        super().before_nonlinear_loop()
        if getattr(self._sim, "predictor", False):
            es = self.equation_system
            guess = es.get_variable_values(time_step_index=0)
            es.set_variable_values(guess + 1e-3 * (1.0 + np.abs(guess)), iterate_index=0)
            self._sim.iterates = [es.get_variable_values(iterate_index=0)]  # the window of iterates starts from the guess
            self._sim.tr.probe("predictor_initial_guess")


def _damage_base():
    """Momentum balance with the shipped fracture-damage mixins (porepy.models.fracture_damage): the one model family
    that overrides ``update_solution`` - contact traction and interface displacement keep their *whole* time-step
    history (shift with max_index=None), all other variables the usual window."""
    from porepy.models import fracture_damage as damage

    class DamageMomentumBalance(damage.IsotropicHistoryEquation, pp.constitutive_laws.FrictionDamage, pp.constitutive_laws.DilationDamage,
                                damage.DamageHistoryVariable, damage.DamageHistoryEquation, pp.MomentumBalance):
        pass

    return DamageMomentumBalance


# solid parameters of the shipped fracture-damage example (porepy.examples.fracture_damage.solid_params)
DAMAGE_SOLID = {"friction_damage_decay": 0.5, "dilation_damage_decay": 0.5, "friction_coefficient": 0.1, "dilation_angle": 0.1, "shear_modulus": 1.0e6,
                "fracture_normal_stiffness": 1.0e-3, "fracture_tangential_stiffness": 1.0e3, "maximum_elastic_fracture_opening": 0.2}

FAMILIES = {
    "flow": lambda: pp.SinglePhaseFlow,
    "energy": lambda: pp.MassAndEnergyBalance,
    "mech": lambda: pp.MomentumBalance,
    "poro": lambda: pp.Poromechanics,
    "damage": _damage_base,
    "mech_lin": lambda: pp.MomentumBalance,  # without fractures: flagged linear by the library; run without injected faults
}
# admissible (fracture set, cell size) pairs per family, found by probing: configurations for which the unfaulted model
# solves (mechanics with the through-going fracture at x = 0.5 and two cells per direction is singular)
FAMILY_GEOMETRY = {
    "energy": [([0], 0.5), ([], 0.5), ([1], 0.5), ([0, 1], 0.5), ([], 1.0)],
    "mech": [([1], 0.5), ([0], 0.25), ([1], 0.25)],  # without fractures the momentum balance is a *linear* problem: a failed solve raises by design
    "poro": [([1], 0.5), ([], 0.5), ([1], 0.25)],
    "damage": [([1], 0.5), ([1], 0.25)],
    "mech_lin": [([], 0.5), ([], 0.25)],
}
_CLASSES: dict = {}


def model_class(family: str):
    if family not in _CLASSES:
        _CLASSES[family] = type(f"SimModel_{family}", (Seams, SquareDomainOrthogonalFractures, FAMILIES[family]()), {})
    return _CLASSES[family]


class ObservingNewton(pp.NewtonSolver):
    """params['nonlinear_solver'] seam: observation points around the real solve."""

    def solve(self, model):
        sim = model._sim
        sim.begin_attempt(model)
        try:
            ok = super().solve(model)
        except ValueError as e:
            sim.after_raise(model, e)
            raise
        sim.after_solve(model, ok)
        return ok


# --------------------------------------------------------------------------------------
class DriverSim:
    def __init__(self, ch, tr: Trace, owner: str, export: bool = False, families=("flow",)):
        self.families = tuple(families)
        self.family = self.families[0]
        self.ch = ch
        self.tr = tr
        self.owner = owner
        self.export = export
        self.dead_oracles: set = set()
        self.accepted: list = []  # (time, solution)
        self.attempt = 0
        self.iter_in_attempt = 0
        self.fault = None
        self.fault_fired = False
        self.iterates: list = []
        self.converged_iterate = None
        self.prev_failed = False
        self.export_hook = None  # set by C38-L2
        self.clock = None

    # ---- configuration ------------------------------------------------------------------
    def configure(self):
        ch = self.ch
        with ch.span("config"):
            if len(self.families) > 1:
                self.family = ch.choice(list(self.families))
            self.fracs = ch.choice([[0], [], [1], [0, 1]])
            # Cartesian grids must conform to the fractures at x, y = 0.5: an even number of cells per direction
            self.cell_size = ch.choice([0.5, 0.25]) if self.fracs else ch.choice([0.5, 1.0, 0.34])
            if self.family != "flow":
                self.fracs, self.cell_size = ch.choice(FAMILY_GEOMETRY[self.family])
            self.ts_depth = ch.choice([1, 2, 3])
            self.it_depth = ch.choice([1, 2, 3])
            self.bc_rate = ch.choice([2.0, 0.5, 8.0])
            self.compress = ch.choice([0.5, 0.05, 2.0])
            # time manager: a few accepted steps, adaptive
            fam = ch.draw(2)
            t0 = ch.choice([0.0, 0.5, 1.25]) if fam == 0 else 0.1 * ch.rng(0, 12)
            n_pts = ch.rng(2, 4)
            sched = [t0]
            for _ in range(n_pts - 1):
                sched.append(sched[-1] + (ch.choice([0.25, 0.5, 1.0]) if fam == 0 else 0.1 * ch.rng(2, 8)))
            first = sched[1] - sched[0]
            dt_init = first / ch.rng(1, 3)
            lo = dt_init / ch.choice([4, 2, 8, 3])
            hi = dt_init * ch.choice([2, 1, 4])
            self.max_iter = ch.rng(5, 10)
            if self.family in ("mech", "poro", "damage"):
                self.max_iter += 6  # contact mechanics needs 6-13 iterations per step without any fault
            # the time manager's iter_max may be smaller than the Newton solver's max_iterations: a step that converges
            # late then reports more iterations than iter_max (allowed; restricts dt)
            iter_max = max(2, self.max_iter + ch.rng(-3, 2))
            hi_opt = ch.rng(1, iter_max)
            lo_opt = ch.rng(1, hi_opt)
            self.tm_kw = dict(
                schedule=sched, dt_init=dt_init, dt_min_max=(lo, hi), iter_max=iter_max, iter_optimal_range=(lo_opt, hi_opt),
                iter_relax_factors=(ch.choice([0.7, 0.5, 0.9]), ch.choice([1.3, 2.0, 1.1])), recomp_factor=ch.choice([0.5, 0.25, 0.9]),
                recomp_max=ch.rng(1, 4),
            )
            self.div_tol = ch.choice([np.inf, 1e6])
            # residual-based convergence criterion on/off: the Newton step assembles the residual after the update only
            # if one of the two residual tolerances is finite (another code path through the loop)
            self.res_tol = ch.choice([np.inf, np.inf, 1e-6])
            # a model may start each solve from a predictor (extrapolated initial guess) instead of the last accepted values
            self.predictor = ch.flag(1, 4)
            # ... or post-process every accepted solution (a limiter): what counts as "the last accepted time-step values"
            # is what the model stored, by whatever route
            self.limiter = ch.flag(1, 4)
            # environment (swarm): enabled fault kinds, rate, horizon, aiming
            kinds = ["diverge", "stall", "nan", "blowup", "late_diverge"]
            self.kinds = [k for k in kinds if ch.flag(2, 3)] or [ch.choice(kinds)]
            self.p_fail = ch.choice([0, 1, 3, 6])  # /10
            self.horizon = ch.choice([MAX_ATTEMPTS, 4, 10, 25])
            self.aim = ch.flag()
            # scripted failure patterns sit on the boundaries by construction (budget minus one, exactly the budget,
            # every landing step once, the step right after every landing, every other attempt)
            self.pattern = ch.choice(["iid", "iid", "iid", "streak", "streak_full", "alternate", "landing", "after_landing"])
            if self.family == "mech_lin":
                self.pattern = "iid"
            if self.family == "mech_lin":
                self.p_fail = 0  # a failed solve of a linear problem raises by design (outside the statements)
                self.predictor = False
        self.tr.emit("config", {"family": self.family, "cell": self.cell_size, "fracs": self.fracs, "ts_depth": self.ts_depth, "it_depth": self.it_depth,
                                "tm": {k: (list(v) if isinstance(v, (list, tuple)) else v) for k, v in self.tm_kw.items()},
                                "max_iter": self.max_iter, "div_tol": float(self.div_tol), "res_tol": float(self.res_tol), "predictor": self.predictor, "limiter": self.limiter, "kinds": self.kinds, "p_fail": self.p_fail,
                                "horizon": self.horizon, "pattern": self.pattern, "export": self.export})

    def build(self, folder="viz", restart_options=None, tm=None):
        try:
            self.tm = tm or pp.TimeManager(**self.tm_kw)
        except ValueError:
            return None
        fluid = pp.FluidComponent(compressibility=self.compress, viscosity=1.0, density=1.0)
        params = {
            "fracture_indices": self.fracs, "grid_type": "cartesian", "meshing_arguments": {"cell_size": self.cell_size},
            "time_manager": self.tm, "material_constants": {"fluid": fluid}, "max_iterations": self.max_iter,
            "nl_convergence_tol": 1e-8, "nl_convergence_tol_res": self.res_tol, "nl_divergence_tol": self.div_tol, "linear_solver": "scipy_sparse",
            "nonlinear_solver": ObservingNewton, "folder_name": folder, "file_name": "data",
        }
        if restart_options is not None:
            params["restart_options"] = restart_options
        params.update(getattr(self, "extra_params", {}))
        if self.family == "damage":
            from porepy.compositional.materials import FractureDamageSolidConstants

            params["material_constants"] = {"solid": FractureDamageSolidConstants(**DAMAGE_SOLID)}
        model = model_class(self.family)(params)
        model._sim = self
        self.params = params
        return model

    # ---- oracles / attribution ----------------------------------------------------------------
    def guard(self, prop, fn):
        """Run a clause owned by ``prop``; raise only if it is the owner's."""
        if prop in self.dead_oracles:
            return
        try:
            fn()
        except Violation as v:
            owner = v.prop or prop
            if owner == self.owner:
                v.prop = None
                raise
            self.tr.foreign[f"{owner}:{v.inv}"] += 1
            self.dead_oracles.add(prop)

    def _v(self, prop, inv, msg, sig=None):
        raise Violation(inv, msg, sig, prop=prop)

    # ---- seam callbacks --------------------------------------------------------------------
    def begin_attempt(self, model):
        tm = model.time_manager
        self.attempt += 1
        if self.attempt > MAX_ATTEMPTS:
            raise Budget()
        self.iter_in_attempt = 0
        self.iterates = [model.equation_system.get_variable_values(iterate_index=0)]
        self.converged_iterate = None
        self.fault_fired = False
        # the clock has already been advanced by the time loop: attempt at tm.time with step tm.dt
        t_att, dt = float(tm.time), float(tm.dt)
        t0 = self.accepted[-1][0]
        self.att = (t0, dt, t_att)
        self.guard("C09", lambda: self.clock.attempt(t0, dt))
        landing = self.clock._lands_on_schedule(t_att)
        final_step = c09.close(tm, t_att, self.clock.t_final)
        first = self.attempt == 1
        ch = self.ch
        with ch.span("attempt"):
            self.fault = None
            pat = getattr(self, "pattern", "iid")
            if pat != "iid" and self.attempt == 1:
                self.tr.probe("scripted_failure_pattern")
            scripted = None
            if pat != "iid" and self.attempt <= 40:
                cf = self.clock.consec_fail
                if pat == "streak":
                    scripted = cf < tm.recomp_max - 1
                elif pat == "streak_full":
                    scripted = cf < tm.recomp_max
                elif pat == "alternate":
                    scripted = not self.prev_failed
                elif pat == "landing":
                    scripted = (landing or final_step) and not self.prev_failed
                elif pat == "after_landing":
                    scripted = getattr(self, "just_landed", False) and not self.prev_failed
            if scripted is not None:
                fire = scripted
            elif pat != "iid":
                fire = False
            else:
                fire = False
                if self.p_fail and self.attempt <= self.horizon:
                    interesting = landing or first or final_step or self.prev_failed
                    p = min(9, self.p_fail * 2) if (self.aim and interesting) else self.p_fail
                    fire = ch.flag(p, 10)
            if True:
                if fire:
                    kind = ch.choice(self.kinds)
                    # the Newton loop runs while num_iteration <= max_iterations, i.e. up to max_iterations + 1 iterations:
                    # the last of them is a fault point of its own
                    j = 1 if ch.flag(1, 3) else (self.max_iter + 1 if ch.flag(1, 5) else ch.rng(1, max(1, self.max_iter)))
                    if j == self.max_iter + 1:
                        self.tr.probe("fault_at_last_permitted_newton_iteration")
                    self.fault = (kind, j)
        self.ctx = {"landing": landing, "final": final_step, "first": first}
        self.about_before = tm._is_about_to_hit_schedule

    def on_linear_solve(self, model, x):
        j = self.iter_in_attempt + 1
        if self.fault and self.fault[1] == j:
            if self.fault[0] == "nan":
                self._fired("nan", j)
                return np.full_like(x, np.nan)
            if self.fault[0] == "blowup":
                self._fired("blowup", j)
                return x * 1.0e4
        return x

    def _fired(self, kind, j):
        if not self.fault_fired:
            self.fault_fired = True
            self.tr.fault(kind, self.attempt, j)
            if j == 1:
                self.tr.probe("fault_at_newton_iteration_1")

    def on_check_convergence(self, model, conv, div):
        self.iter_in_attempt += 1
        j = self.iter_in_attempt
        it0 = model.equation_system.get_variable_values(iterate_index=0)
        self.iterates.append(it0)
        f = self.fault
        if f and f[0] == "diverge" and f[1] == j and not conv:
            self._fired("diverge", j)
            return False, True
        if f and f[0] == "diverge" and f[1] == j and conv:
            # the real solve converged exactly at the iteration chosen for the fault: force the failure anyway
            self._fired("diverge", j)
            return False, True
        if f and f[0] == "stall" and j >= f[1]:
            self._fired("stall", j)
            return False, False
        if f and f[0] == "late_diverge":
            # no convergence all the way, divergence flagged in the very last iteration the loop permits (max_iterations + 1)
            self._fired("late_diverge", j)
            return (False, True) if j >= self.max_iter + 1 else (False, False)
        if conv:
            self.converged_iterate = it0
        return conv, div

    def on_save(self, model, real_save):
        if self.export:
            if self.export_hook is not None:
                self.export_hook(model, real_save)
            else:
                real_save()

    # ---- observation points ------------------------------------------------------------------
    def start(self, model):
        """After prepare_simulation: the initial condition is the first accepted solution."""
        es = model.equation_system
        sol0 = es.get_variable_values(time_step_index=0)
        self.accepted = [(float(model.time_manager.time), sol0)]
        self.clock = c09.ClockOracle(model.time_manager, self.tr, prop="C09")
        self.tr.state(("start",) + c09.abstract_state(model.time_manager))

    def after_solve(self, model, ok):
        tm = model.time_manager
        es = model.equation_system
        t0, dt, t_att = self.att
        tr = self.tr
        if ok:
            ts0 = es.get_variable_values(time_step_index=0)
            it0 = es.get_variable_values(iterate_index=0)

            def c10_conv():
                if not np.array_equal(ts0, it0):
                    self._v("C10", "converged_step_stored", f"after the converged step at t={t_att!r}: time_step_index=0 differs from iterate_index=0 (max abs diff {np.max(np.abs(ts0 - it0)):.3e})")
                if self.converged_iterate is None:
                    kind = self.fault[0] if (self.fault and self.fault_fired) else "none"
                    self._v("C10", "failed_solve_handled_as_failure", f"the solver reported the attempt at t={t_att!r} as converged although the convergence check never reported convergence (injected fault: {kind})")
                if self.converged_iterate is not None and not np.array_equal(ts0, self.converged_iterate):
                    self._v("C10", "converged_step_stored", f"after the converged step at t={t_att!r}: stored time-step values differ from the iterate that was declared converged")
            self.guard("C10", c10_conv)
            self.accepted.append((t_att, ts0))
            self._guard_history(model, f"after the converged step at t={t_att!r}")
            # iterate window (C08): iterate_index=k is the k-th most recent iterate
            def c08_iter():
                for k in range(min(self.it_depth, len(self.iterates))):
                    got = es.get_variable_values(iterate_index=k)
                    exp = self.iterates[-1 - k]
                    if not np.array_equal(got, exp):
                        self._v("C08", "driver_iterate_window", f"after the converged step at t={t_att!r}: iterate_index={k} is not the {k}-th most recent iterate")
            self.guard("C08", c08_iter)
            self.guard("C09", lambda: self.clock.accepted_step(t_att))
            k = model.nonlinear_solver_statistics.num_iteration
            tr.op("step", "landed" if self.ctx["landing"] else "conv", t_att, k)
            tr.sim_steps += 1
            self.prev_failed = False
            self.just_landed = bool(self.ctx["landing"])
        else:
            kind = self.fault[0] if (self.fault and self.fault_fired) else "real"
            if self.prev_failed:
                tr.probe("failure_right_after_failure")
            if self.ctx["landing"]:
                tr.probe("failure_on_schedule_landing_step")
            if self.ctx["first"]:
                tr.probe("failure_on_first_step")
            if self.ctx["final"]:
                tr.probe("failure_on_final_step")
            if kind == "real":
                tr.probe("real_divergence_or_nonconvergence")
                tr.fault("real-failure", self.attempt)
            last = self.accepted[-1][1]

            def c10_fail():
                it0 = es.get_variable_values(iterate_index=0)
                ts0 = es.get_variable_values(time_step_index=0)
                if not np.array_equal(ts0, last):
                    self._v("C10", "failed_step_keeps_accepted_state", f"after the failed attempt at t={t_att!r} ({kind}): time_step_index=0 differs from the last accepted solution (max abs diff {np.nanmax(np.abs(ts0 - last)):.3e})")
                if not np.array_equal(it0, last):
                    nn = int(np.sum(np.isnan(it0)))
                    self._v("C10", "failed_step_resets_iterate", f"after the failed attempt at t={t_att!r} ({kind}): iterate_index=0 differs from the last accepted solution ({nn} NaNs, max abs diff {np.nanmax(np.abs(it0 - last)):.3e})")
            self.guard("C10", c10_fail)
            self._guard_history(model, f"after the failed attempt at t={t_att!r} ({kind})")
            self.guard("C09", lambda: self.clock.failed_step(float(tm.time), dt))
            if self.about_before:
                tr.probe("step_back_S5")
            tr.op("step", "failed:" + kind, t_att, changing=False)
            self.prev_failed = True
        tr.state(c09.abstract_state(tm))

    def _guard_history(self, model, where):
        """Index 0 belongs to C10, deeper indices to C08: evaluate them separately."""
        es = model.equation_system

        def idx0():
            got = es.get_variable_values(time_step_index=0)
            exp = self.accepted[-1][1]
            if not np.array_equal(got, exp):
                self._v("C10", "time_step_history_equals_accepted", f"{where}: time_step_index=0 differs from the last accepted solution")

        def deeper():
            for i in range(1, self.ts_depth):
                exp = self.accepted[-1 - i][1] if len(self.accepted) > i else self.accepted[0][1]
                got = es.get_variable_values(time_step_index=i)
                if not np.array_equal(got, exp):
                    self._v("C08" if self.owner == "C08" else "C10", "driver_window_depth", f"{where}: time_step_index={i} is not the {i}-th most recent accepted solution (depth {self.ts_depth}, accepted times {[a[0] for a in self.accepted[-4:]]})")
            if self.ts_depth == 3 and len(self.accepted) >= 3:
                self.tr.probe("depth3_window_filled")
            # variables a model keeps at *all* time steps (fracture damage): every accepted solution stays readable
            if hasattr(model, "variables_stored_all_time_steps"):
                hv = model.variables_stored_all_time_steps()
                dofs = np.sort(es.dofs_of(hv))
                for i in range(1, len(self.accepted)):
                    got = es.get_variable_values(variables=hv, time_step_index=i)
                    if not np.array_equal(got, self.accepted[-1 - i][1][dofs]):
                        self._v("C08" if self.owner == "C08" else "C10", "driver_window_depth", f"{where}: full-history variables at time_step_index={i} are not the {i}-th most recent accepted solution ({len(self.accepted) - 1} accepted steps)", "full_history_variables")
                if len(self.accepted) >= 4:
                    self.tr.probe("full_history_ge_3_steps")

        self.guard("C10", idx0)
        # The deeper entries are stated by both C10 ("time-step history equal to the sequence of accepted solutions")
        # and C08 (anchor: model usage with depth = len(time_step_indices)); the clause is reported by whichever of the
        # two checks is running and counted as foreign by the others.
        self.guard("C08" if self.owner == "C08" else "C10", deeper)

    def after_raise(self, model, exc):
        """ValueError out of after_nonlinear_failure: legal iff budget exhausted or dt == dt_min."""
        t0, dt, t_att = self.att
        kind = self.fault[0] if (self.fault and self.fault_fired) else "real"
        self.tr.op("step", "raised:" + kind, t_att, changing=False)
        self.raised = True

        def c09_raise():
            self.clock.raised(exc, dt)
        self.guard("C09", c09_raise)

        def c10_raise():
            # C10 quantifies over failure patterns "within the time manager's recomputation budget": a run that the
            # failure handling aborts although the budget is not exhausted (and dt is not at dt_min) does not end at the
            # final time.  Same shadow counters as C09's clause, reported under C10's own name.
            tm = model.time_manager
            budget = self.clock.consec_fail >= tm.recomp_max
            at_min = (not tm.is_constant) and dt == tm.dt_min_max[0]
            if not (budget or at_min):
                self._v("C10", "failure_handling_completes", f"the failure handling aborted the run with {exc!r} after {self.clock.consec_fail} consecutive failures (recomp_max={tm.recomp_max}, dt={dt!r}, dt_min={tm.dt_min_max[0]!r}): within the recomputation budget the run must go on", "aborted_within_budget")
        self.guard("C10", c10_raise)
        self._guard_history(model, f"after the failure handling raised at t={t_att!r}")


# --------------------------------------------------------------------------------------
PROBES = ["fault_at_newton_iteration_1", "failure_right_after_failure", "failure_on_schedule_landing_step", "failure_on_first_step",
          "failure_on_final_step", "depth3_window_filled", "budget_exhausted_raise", "fail_at_dt_min_raise", "real_divergence_or_nonconvergence",
          "step_back_S5", "run_reached_final_time", "attempt_cap_reached", "config_rejected", "full_history_ge_3_steps", "predictor_initial_guess", "limiter_rewrites_accepted_solution", "fault_at_last_permitted_newton_iteration", "scripted_failure_pattern"]


def make_run(owner: str, families=("flow",)):
    def run(ch, tr: Trace) -> None:
        sim = DriverSim(ch, tr, owner, export=False, families=families)
        sim.configure()
        model = sim.build()
        if model is None:
            tr.probe("config_rejected")
            tr.emit("config-rejected")
            return
        run_model(sim, model)

    return run


def run_model(sim: DriverSim, model) -> None:
    model.prepare_simulation()
    sim.start(model)
    run_model_loop(sim, model)


def run_model_loop(sim: DriverSim, model) -> None:
    """The time loop after prepare_simulation() and sim.start() (shared with the C38 model workload)."""
    tr = sim.tr
    params = dict(sim.params)
    params["prepare_simulation"] = False
    sim.raised = False
    try:
        pp.run_time_dependent_model(model, params)
    except Budget:
        tr.probe("attempt_cap_reached")
        tr.emit("cap")
        tr.sim_time += sim.accepted[-1][0] - sim.accepted[0][0]
        return
    except ValueError as e:
        if not sim.raised:
            # a ValueError that did not come through the failure handling of a failed solve
            if sim.owner == "C10":
                raise Violation("failure_handling_completes", f"the driver raised {e!r} outside the documented failure path")
            tr.foreign["C10:failure_handling_completes"] += 1
            tr.emit("foreign-exception", repr(e)[:200])
        tr.sim_time += sim.accepted[-1][0] - sim.accepted[0][0]
        tr.emit("end-raised", sim.accepted[-1][0], len(sim.accepted) - 1)
        return
    except (IndexError, KeyError, TypeError, AttributeError, ZeroDivisionError, AssertionError, FloatingPointError) as e:
        if sim.owner == "C10":
            raise Violation("failure_handling_completes", f"the driver crashed with {e!r} under injected solver faults (attempt {sim.attempt})", "driver_crashed")
        tr.foreign["C10:failure_handling_completes"] += 1
        tr.emit("foreign-exception", repr(e)[:200])
        return
    # normal end
    tm = model.time_manager

    def c10_end():
        if not tm.final_time_reached():
            sim._v("C10", "run_ends_at_final_time", f"the time loop returned at t={tm.time!r} before the final time {tm.time_final!r}")
        # "The run ends at the final time": the last accepted solution belongs to time_final (stated by C10 itself; where
        # the clock is in between remains C09's)
        t_last = sim.accepted[-1][0]
        if not c09.close(tm, t_last, float(tm.time_final)):
            sim._v("C10", "run_ends_at_final_time", f"the run ended with the last accepted solution at t={t_last!r}, final time {float(tm.time_final)!r}", "last_accepted_not_at_final_time")
    sim.guard("C10", c10_end)
    sim._guard_history(model, "at the end of the run")
    sim.guard("C09", lambda: sim.clock.end())
    tr.probe("run_reached_final_time")
    tr.sim_time += sim.accepted[-1][0] - sim.accepted[0][0]
    tr.emit("end", sim.accepted[-1][0], len(sim.accepted) - 1)
