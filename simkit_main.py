"""CLI: ./check <ID> [--tier quick|thorough] [--replay FILE] [--runs N] [--workers W] [--digests]
        ./check --selftest determinism|sensitivity [IDs...]
"""
from __future__ import annotations

import argparse
import importlib
import os
import sys

HOME = os.path.dirname(os.path.abspath(__file__))
sys.path.insert(0, HOME)


def main() -> int:
    ap = argparse.ArgumentParser()
    ap.add_argument("prop", nargs="?")
    ap.add_argument("--tier", default=os.environ.get("VERIF_TIER", "quick"))
    ap.add_argument("--replay")
    ap.add_argument("--runs", type=int)
    ap.add_argument("--workers", type=int, default=int(os.environ.get("VERIF_WORKERS", "0")) or (os.cpu_count() or 4))
    ap.add_argument("--digests", action="store_true")
    ap.add_argument("--no-evidence", action="store_true")
    ap.add_argument("--only", help="run only this workload")
    ap.add_argument("--wall-budget", type=float)
    ap.add_argument("--one", type=int, help="debug: execute one run index of --only workload (default first) and print its trace")
    ap.add_argument("--selftest")
    ap.add_argument("rest", nargs="*")
    a = ap.parse_args()
    seed = int(os.environ.get("VERIF_SEED", "0") or 0)

    if a.selftest:
        from selftest import selftests

        ids = ([a.prop] if a.prop else []) + a.rest
        return selftests.main(a.selftest, ids)

    from simkit import runner

    mod = importlib.import_module(f"props.{a.prop}")
    if a.replay:
        return runner.replay_file(mod, a.replay)
    if a.one is not None:
        return runner.run_one(mod, a.only, seed, a.one)
    return runner.run_check(
        mod, a.tier, seed, a.workers, runs_override=a.runs, want_digests=a.digests,
        write_evidence=not a.no_evidence, only=a.only, wall_budget=a.wall_budget,
    )


if __name__ == "__main__":
    sys.exit(main())
