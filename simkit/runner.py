"""Seeded batch execution, aggregation, minimisation, replay and the exit-code contract.

exit 0  property held on everything explored (KNOWN-FINDING lines possible)
exit 1  VIOLATION property=<ID> replay=<path> (violation not in known_findings.json)
exit 2  HARNESS-ERROR ... (timeouts, worker death, unexpected exceptions in harness code)
"""

from __future__ import annotations

import faulthandler
import hashlib
import json
import os
import signal
import subprocess
import sys
import time as _time
import traceback
from collections import Counter
from concurrent.futures import ProcessPoolExecutor
from concurrent.futures.process import BrokenProcessPool
from dataclasses import dataclass, field
from multiprocessing import get_context
from typing import Callable, Optional

from . import envseam, findings
from .chooser import Chooser, stream_seed
from .shrink import shrink
from .trace import Trace, Violation

HOME = os.path.dirname(os.path.dirname(os.path.abspath(__file__)))
_perf = _time.perf_counter


@dataclass
class Workload:
    name: str
    run: Callable[[Chooser, Trace], None]
    runs: dict  # tier -> number of runs
    chunk: int = 50
    run_timeout: float = 120.0  # seconds of real time per run before it is a harness error
    real: list = field(default_factory=list)
    stub: list = field(default_factory=list)
    note: str = ""
    leak_mb: float = 0.0  # memory a run leaves behind in its worker (numba LLVM modules of per-call jitted closures), measured
    override_cap: Optional[int] = None  # upper bound for --runs overrides (determinism self-test) of expensive workloads


LEAK_BUDGET_MB_PER_WORKER = 700.0


class RunTimeout(BaseException):
    pass


def _alarm(_sig, frm):
    # record where the run was when the watchdog fired (reported with the harness error)
    _alarm.where = "".join(traceback.format_stack(frm, limit=8))
    raise RunTimeout()


_alarm.where = ""


def execute(wl: Workload, ch: Chooser, keep_events: bool = True) -> dict:
    """One simulated run. Never raises (except KeyboardInterrupt)."""
    tr = Trace()
    envseam.pin()
    out: dict = {"violation": None, "harness_error": None}
    # watchdog in *CPU* seconds of this process (ITIMER_PROF): a run that hangs in a loop is cut, while a run that is
    # merely starved by other jobs on the machine is not (the real-time variant produced spurious harness errors at a
    # load average of 30 on 16 cores); a batch-level real-time guard remains in run_check (fu.result timeout)
    signal.signal(signal.SIGPROF, _alarm)
    signal.setitimer(signal.ITIMER_PROF, wl.run_timeout)
    try:
        wl.run(ch, tr)
    except Violation as v:
        out["violation"] = {"inv": v.inv, "msg": v.msg, "sig": v.sig, "prop": v.prop}
    except RunTimeout:
        out["harness_error"] = f"run exceeded {wl.run_timeout}s of CPU time at\n{_alarm.where}"
    except KeyboardInterrupt:
        raise
    except BaseException:  # noqa: BLE001  harness error, reported apart from VIOLATION
        out["harness_error"] = traceback.format_exc(limit=12)
    finally:
        signal.setitimer(signal.ITIMER_PROF, 0)
        ch.close_spans()
        envseam.unpin()
    out["trace"] = tr
    out["digest"] = tr.digest()
    return out


def _jsonable(x):
    import numpy as np

    if isinstance(x, (list, tuple)):
        return [_jsonable(y) for y in x]
    if isinstance(x, dict):
        return {str(k): _jsonable(v) for k, v in x.items()}
    if isinstance(x, np.ndarray):
        return _jsonable(x.tolist())
    if isinstance(x, (np.integer,)):
        return int(x)
    if isinstance(x, (np.floating,)):
        return float(x)
    if isinstance(x, (str, int, float, bool)) or x is None:
        return x
    return repr(x)


# --------------------------------------------------------------------------------------
# worker side
_MODULE = None  # set in parent before fork


def _run_chunk(args):
    wl_index, seed, start, stop, want_digests, n_samples = args
    mod = _MODULE
    wl: Workload = mod.WORKLOADS[wl_index]
    faulthandler.enable()
    agg = {
        "n": 0,
        "ops": Counter(),
        "faults": Counter(),
        "probes": Counter(),
        "foreign": Counter(),
        "states": set(),
        "transitions": set(),
        "fps_nontrivial": set(),
        "n_nontrivial": 0,
        "n_ops": 0,
        "sim_time": 0.0,
        "sim_steps": 0,
        "violations": [],
        "harness_errors": [],
        "samples": [],
        "digest_chain": hashlib.sha256(),
        "digests": [],
        "wall": 0.0,
        "_sigs": set(),
    }
    t0 = _perf()
    order = range(start, stop)
    if os.environ.get("VERIF_REVERSE"):  # determinism self-test: same runs, other execution order inside the process
        order = range(stop - 1, start - 1, -1)
    for i in order:
        ch = Chooser(seed=stream_seed(seed, mod.ID, wl.name, i))
        res = execute(wl, ch)
        tr: Trace = res["trace"]
        agg["n"] += 1
        agg["ops"].update(tr.ops)
        agg["faults"].update(tr.faults)
        agg["probes"].update(tr.probes)
        agg["foreign"].update(tr.foreign)
        agg["states"] |= tr.states
        agg["transitions"] |= tr.transitions
        agg["n_ops"] += len(tr.fp)
        agg["sim_time"] += tr.sim_time
        agg["sim_steps"] += tr.sim_steps
        if tr.nontrivial():
            agg["n_nontrivial"] += 1
            agg["fps_nontrivial"].add(tr.fingerprint())
        agg["digest_chain"].update(res["digest"].encode())
        if want_digests:
            agg["digests"].append((i, res["digest"]))
        if res["violation"] is not None:
            v = dict(res["violation"])
            v.update(index=i, workload=wl.name, choices=list(ch.rec), spans=list(ch.spans))
            if v.get("prop") not in (None, mod.ID):
                agg["foreign"][f"{v['prop']}:{v['inv']}"] += 1
            elif len(agg["violations"]) < 20 or (v["inv"], v["sig"]) not in agg["_sigs"]:
                agg["_sigs"].add((v["inv"], v["sig"]))
                agg["violations"].append(v)
            else:
                agg["violations"].append({k: v[k] for k in ("inv", "sig", "index", "workload", "prop", "msg")})
        if res["harness_error"] is not None and len(agg["harness_errors"]) < 5:
            agg["harness_errors"].append({"index": i, "workload": wl.name, "error": res["harness_error"]})
        if len(agg["samples"]) < n_samples and tr.nontrivial():
            agg["samples"].append(
                {"workload": wl.name, "run_index": i, "events": _jsonable(tr.events[:60]), "n_events": len(tr.events)}
            )
    agg["wall"] = _perf() - t0
    agg["digest_chain"] = agg["digest_chain"].hexdigest()
    return agg


# --------------------------------------------------------------------------------------
def _replay_once(mod, wl: Workload, choices) -> dict:
    ch = Chooser(replay=choices)
    res = execute(wl, ch)
    res["choices"] = list(ch.rec)
    res["spans"] = list(ch.spans)
    return res


def _workload_by_name(mod, name: str) -> Workload:
    for wl in mod.WORKLOADS:
        if wl.name == name:
            return wl
    raise KeyError(name)


def minimise_and_write(mod, v: dict, seed: int, tier: str, do_shrink: bool = True) -> str:
    wl = _workload_by_name(mod, v["workload"])
    target = (v["inv"], v["sig"])

    def test(seq):
        r = _replay_once(mod, wl, seq)
        vv = r["violation"]
        if vv is not None and (vv["inv"], vv["sig"]) == target and vv.get("prop") in (None, mod.ID):
            return r["choices"], r["spans"]
        return None

    first = _replay_once(mod, wl, v["choices"])
    if first["violation"] is None or (first["violation"]["inv"], first["violation"]["sig"]) != target:
        raise RuntimeError(
            f"violation of run {v['index']} did not reproduce in-process: {first['violation']} vs {target}"
        )
    if do_shrink:
        best, execs = shrink(first["choices"], first["spans"], test, max_exec=getattr(mod, "SHRINK_EXECS", 400), max_wall=getattr(mod, "SHRINK_WALL", 40.0))
    else:
        best, execs = first["choices"], 0
    final = _replay_once(mod, wl, best)
    fv = final["violation"]
    assert fv is not None
    d8 = final["digest"][:8]
    rdir = os.path.join(HOME, "replays", mod.ID)
    os.makedirs(rdir, exist_ok=True)
    path = os.path.join(rdir, f"{seed}-{wl.name}-{v['index']}-{d8}.json")
    doc = {
        "property": mod.ID,
        "workload": wl.name,
        "inv": fv["inv"],
        "sig": fv["sig"],
        "msg": fv["msg"],
        "seed": seed,
        "tier": tier,
        "run_index": v["index"],
        "choices_original": v["choices"],
        "choices": final["choices"],
        "shrink_executions": execs,
        "digest": final["digest"],
        "events": _jsonable(final["trace"].events),
        "faults_fired": dict(final["trace"].faults),
    }
    with open(path, "w") as f:
        json.dump(doc, f, indent=1)
    return path


def replay_file(mod, path: str) -> int:
    with open(path) as f:
        doc = json.load(f)
    wl = _workload_by_name(mod, doc["workload"])
    res = _replay_once(mod, wl, doc["choices"])
    v = res["violation"]
    if res["harness_error"]:
        print("HARNESS-ERROR replay:", res["harness_error"])
        return 2
    if v is None:
        print(f"REPLAY-CLEAN property={mod.ID} file={path} (no violation on this tree)")
        return 0
    same = (v["inv"], v["sig"]) == (doc["inv"], doc["sig"]) and res["digest"] == doc["digest"]
    print(f"replay: inv={v['inv']} sig={v['sig']} digest={res['digest'][:16]} same_as_recorded={same}")
    print(f"  {v['msg']}")
    for e in _jsonable(res["trace"].events)[-25:]:
        print("   ", json.dumps(e))
    print(f"VIOLATION property={mod.ID} replay={path}")
    return 1


def run_one(mod, wl_name, seed: int, index: int) -> int:
    wl = _workload_by_name(mod, wl_name) if wl_name else mod.WORKLOADS[0]
    faulthandler.enable()
    ch = Chooser(seed=stream_seed(seed, mod.ID, wl.name, index))
    res = execute(wl, ch)
    for e in _jsonable(res["trace"].events):
        print("  ", json.dumps(e)[:300])
    print("digest", res["digest"][:16], "violation", res["violation"], "harness_error", res["harness_error"])
    return 0


def _fresh_replay_ok(mod_name: str, path: str) -> tuple[bool, str]:
    """Replay in a fresh interpreter; must reproduce the same violation and digest."""
    cmd = [os.path.join(HOME, "check"), mod_name, "--replay", path]
    p = subprocess.run(cmd, capture_output=True, text=True, timeout=600)
    ok = p.returncode == 1 and "same_as_recorded=True" in p.stdout
    return ok, p.stdout[-2000:] + p.stderr[-2000:]


# --------------------------------------------------------------------------------------
def run_check(mod, tier: str, seed: int, workers: int, runs_override: Optional[int] = None,
              want_digests: bool = False, write_evidence: bool = True, only: Optional[str] = None,
              wall_budget: Optional[float] = None) -> int:
    global _MODULE
    _MODULE = mod
    t_start = _perf()
    tasks = []
    per_wl_runs = {}
    for wi, wl in enumerate(mod.WORKLOADS):
        if only and wl.name != only:
            continue
        n = wl.runs.get(tier, 0) if runs_override is None else runs_override
        if runs_override is not None and wl.override_cap is not None:
            n = min(n, wl.override_cap)
        per_wl_runs[wl.name] = n
        first = True
        for s in range(0, n, wl.chunk):
            tasks.append((wi, seed, s, min(n, s + wl.chunk), want_digests, 2 if first else 0))
            first = False
    # Warm-up in the parent: one throw-away run per workload so that numba-compiled code, lazy imports and caches
    # are inherited by the forked workers instead of being rebuilt in each of them (results are discarded; every run
    # starts from envseam.pin(), so this does not influence any recorded run).
    envseam.prime_numba()
    for wi, wl in enumerate(mod.WORKLOADS):
        if (only and wl.name != only) or not per_wl_runs.get(wl.name):
            continue
        for k in range(getattr(mod, "WARMUP_RUNS", 2)):
            execute(wl, Chooser(seed=stream_seed(seed, mod.ID, wl.name + "/warmup", k)))
    results: list = [None] * len(tasks)
    pool_error = None
    reduced = False
    ctx = get_context("fork")
    # Worker recycling: porepy jit-compiles a few closures on every call (exporter, block inversion, point sorting), and
    # numba never frees those LLVM modules (~2 MB per exporter run, measured).  A workload states its measured leak per run (leak_mb): the
    # batch is then executed by successive pool generations of bounded total leak, each forked afresh from the warm
    # parent, so the memory of a worker stays bounded however long the tier is.  Results do not depend on the split.
    generations: list = [[]]
    acc = 0.0
    for k, t in enumerate(tasks):
        generations[-1].append(k)
        acc += (t[3] - t[2]) * mod.WORKLOADS[t[0]].leak_mb
        if acc >= LEAK_BUDGET_MB_PER_WORKER * workers and k + 1 < len(tasks):
            generations.append([])
            acc = 0.0
    for gen in generations:
        if pool_error or not gen:
            break
        with ProcessPoolExecutor(max_workers=workers, mp_context=ctx) as ex:
            futs = [(k, ex.submit(_run_chunk, tasks[k])) for k in gen]
            try:
                for k, fu in futs:
                    if wall_budget is not None and (_perf() - t_start) > wall_budget:
                        if fu.cancel():
                            reduced = True
                            continue
                    results[k] = fu.result(timeout=3600)
            except BrokenProcessPool as e:  # worker died
                pool_error = f"worker process died: {e!r}"
            except Exception as e:  # noqa: BLE001
                pool_error = f"pool failure: {e!r}\n{traceback.format_exc(limit=5)}"
        if wall_budget is not None and (_perf() - t_start) > wall_budget and gen is not generations[-1]:
            reduced = True
            break

    # ---- deterministic aggregation in task order ------------------------------------
    tot = {
        "n": 0, "ops": Counter(), "faults": Counter(), "probes": Counter(), "foreign": Counter(),
        "states": set(), "transitions": set(), "fps": set(), "n_nontrivial": 0, "n_ops": 0,
        "sim_time": 0.0, "sim_steps": 0, "violations": [], "harness_errors": [], "samples": [],
        "cpu": 0.0,
    }
    per_wl = {}
    chain = hashlib.sha256()
    digests = []
    for t, r in zip(tasks, results):
        if r is None:
            continue
        wlname = mod.WORKLOADS[t[0]].name
        pw = per_wl.setdefault(wlname, {"runs": 0, "cpu_s": 0.0, "nontrivial": 0, "violations": 0})
        pw["runs"] += r["n"]
        pw["cpu_s"] += r["wall"]
        pw["nontrivial"] += r["n_nontrivial"]
        pw["violations"] += len(r["violations"])
        tot["n"] += r["n"]
        for k in ("ops", "faults", "probes", "foreign"):
            tot[k].update(r[k])
        tot["states"] |= {(wlname, s) for s in r["states"]}
        tot["transitions"] |= {(wlname, s) for s in r["transitions"]}
        tot["fps"] |= {(wlname, f) for f in r["fps_nontrivial"]}
        tot["n_nontrivial"] += r["n_nontrivial"]
        tot["n_ops"] += r["n_ops"]
        tot["sim_time"] += r["sim_time"]
        tot["sim_steps"] += r["sim_steps"]
        tot["violations"].extend(r["violations"])
        tot["harness_errors"].extend(r["harness_errors"])
        tot["samples"].extend(r["samples"])
        tot["cpu"] += r["wall"]
        chain.update(r["digest_chain"].encode())
        digests.extend(r["digests"])

    wall = _perf() - t_start
    batch_digest = chain.hexdigest()

    # ---- violations -> minimise, replay, classify -------------------------------------
    exit_code = 0
    lines = []
    known = findings.load()
    by_sig: dict = {}
    for v in tot["violations"]:
        by_sig.setdefault((v["inv"], v["sig"]), []).append(v)
    reported = []
    n_minimised = 0
    max_minimise = int(os.environ.get("VERIF_MAX_MINIMISE", "3"))
    # most frequent classes first: those are minimised; the rest are listed with their raw replay
    for (inv, sig), vs in sorted(by_sig.items(), key=lambda kv: (-len(kv[1]), kv[0])):
        full = [v for v in vs if "choices" in v]
        v0 = min(full, key=lambda v: (v["workload"], v["index"]))
        kf = findings.match(known, mod.ID, inv, sig)
        if kf is not None:
            lines.append(f"KNOWN-FINDING: property={mod.ID} {kf['what']} [sig={sig}; {len(vs)} of {tot['n']} runs; e.g. {v0['workload']}#{v0['index']}]")
            reported.append({"inv": inv, "sig": sig, "count": len(vs), "known": True})
            continue
        try:
            n_minimised += 1
            path = minimise_and_write(mod, v0, seed, tier, do_shrink=n_minimised <= max_minimise)
            ok, out = _fresh_replay_ok(mod.ID, path)
            if not ok:
                lines.append(f"HARNESS-ERROR property={mod.ID} replay of {path} in a fresh interpreter did not reproduce:\n{out}")
                exit_code = max(exit_code, 2)
                continue
        except Exception:  # noqa: BLE001
            lines.append(f"HARNESS-ERROR property={mod.ID} minimisation failed for {inv}/{sig}: {traceback.format_exc(limit=6)}")
            exit_code = max(exit_code, 2)
            continue
        with open(path) as f:
            doc = json.load(f)
        lines.append(f"violation: inv={inv} sig={sig} runs={len(vs)} first={v0['workload']}#{v0['index']} minimised_choices={len(doc['choices'])} msg={doc['msg']}")
        lines.append(f"VIOLATION property={mod.ID} replay={path}")
        reported.append({"inv": inv, "sig": sig, "count": len(vs), "known": False, "replay": path})
        exit_code = max(exit_code, 1)

    if tot["harness_errors"] or pool_error:
        # Harness errors are reported apart from violations and never turn into exit 0. A replayable violation found in
        # the same batch stays a violation (exit 1): it was re-executed in a fresh interpreter before being printed.
        if not any(not r["known"] for r in reported):
            exit_code = 2
        if pool_error:
            lines.append(f"HARNESS-ERROR property={mod.ID} {pool_error}")
        for he in tot["harness_errors"][:3]:
            lines.append(f"HARNESS-ERROR property={mod.ID} {he['workload']}#{he['index']}: {he['error']}")

    # ---- evidence ----------------------------------------------------------------------
    n_new = sum(r["count"] for r in reported if not r["known"])
    ev = {
        "property_id": mod.ID,
        "tier": tier if tier in ("quick", "thorough") else "quick",
        "seed": seed,
        "level": mod.LEVEL,
        "coverage": {
            "evaluations": tot["n"],
            "distinct_nontrivial": len(tot["fps"]),
            "rule": mod.RULE,
            "samples": tot["samples"][:3],
            "nontrivial_runs": tot["n_nontrivial"],
            "states": len(tot["states"]),
            "transitions": len(tot["transitions"]),
            "state_abstraction": getattr(mod, "STATE_ABSTRACTION", ""),
            "operations_executed": tot["n_ops"],
            "operations_by_kind_and_outcome": dict(sorted(tot["ops"].items())),
            "faults_fired": dict(sorted(tot["faults"].items())),
            "probes_hit": dict(sorted(tot["probes"].items())),
            "probes_never_hit": sorted(set(getattr(mod, "PROBES", [])) - set(tot["probes"])),
            "foreign_invariants_tripped": dict(sorted(tot["foreign"].items())),
            "simulated_time_covered": tot["sim_time"],
            "simulated_steps_accepted": tot["sim_steps"],
            "runs_per_hour": (tot["n"] / wall * 3600.0) if wall > 0 else 0.0,
            "seeds_per_hour": (1.0 / wall * 3600.0) if wall > 0 else 0.0,
            "cpu_s": tot["cpu"],
            "workers": workers,
            "per_workload": per_wl,
            "planned_runs": per_wl_runs,
            "reduced_by_wall_budget": reduced,
            "batch_digest": batch_digest,
            "real_vs_stub": {wl.name: {"real": wl.real, "stub": wl.stub} for wl in mod.WORKLOADS},
            "findings": reported,
            "exhaustive": False,
        },
        "assumptions": list(getattr(mod, "ASSUMPTIONS", [])),
        "wall_s": wall,
        "violations": n_new,
    }
    if write_evidence:
        os.makedirs(os.path.join(HOME, "evidence"), exist_ok=True)
        with open(os.path.join(HOME, "evidence", f"{mod.ID}.json"), "w") as f:
            json.dump(ev, f, indent=1, default=str)
    if want_digests:
        for i, d in digests:
            print(f"DIGEST {i} {d}")
    print(f"[{mod.ID}] tier={tier} seed={seed} runs={tot['n']} nontrivial={tot['n_nontrivial']} distinct={len(tot['fps'])} "
          f"states={len(tot['states'])} faults={sum(tot['faults'].values())} wall={wall:.1f}s batch_digest={batch_digest[:16]}")
    for ln in lines:
        print(ln)
    return exit_code
