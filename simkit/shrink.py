"""Generic minimiser over choice sequences.

A candidate is accepted iff re-executing it still violates the *same invariant with
the same finding signature* (so shrinking cannot slide from one bug into another).
Passes: delete spans (whole operations / fault decisions, large to small, back to
front), delete single choices, zero choices, lower choices by bisection.
"""

from __future__ import annotations

import time as _time
from typing import Callable, Optional, Sequence


def shrink(
    choices: Sequence[int],
    spans: Sequence[tuple],
    test: Callable[[Sequence[int]], Optional[tuple]],
    max_exec: int = 400,
    max_wall: float = 60.0,
    clock=None,
):
    """Return (minimised choices, executions used).

    ``test(seq)`` re-executes the run and returns ``(normalised_choices, spans)`` iff
    the same violation occurred, else None.
    """
    # NOTE: the wall-clock bound only limits effort; the *result* is re-validated by the
    # caller through a fresh replay, so it does not affect correctness or replayability.
    real_clock = clock or _perf
    t0 = real_clock()
    best = list(choices)
    best_spans = list(spans)
    execs = 0

    def budget_left() -> bool:
        return execs < max_exec and (real_clock() - t0) < max_wall

    def attempt(cand) -> bool:
        nonlocal best, best_spans, execs
        if cand == best:
            return False
        execs += 1
        res = test(cand)
        if res is None:
            return False
        norm, sp = res
        norm = list(norm)
        # accept only if not longer / lexicographically not larger
        if len(norm) > len(best) or (len(norm) == len(best) and norm >= best):
            return False
        best, best_spans = norm, list(sp)
        return True

    improved = True
    while improved and budget_left():
        improved = False
        # pass 1: delete spans, widest first, back to front
        sp_sorted = sorted(
            {(s, e) for (s, e, _l, _d) in best_spans if e > s},
            key=lambda se: (-(se[1] - se[0]), -se[0]),
        )
        for s, e in sp_sorted:
            if not budget_left():
                break
            if e > len(best):
                continue
            if attempt(best[:s] + best[e:]):
                improved = True
                break  # spans changed; recompute
        if improved:
            continue
        # pass 2: truncate tail
        n = len(best)
        k = n // 2
        while k >= 1 and budget_left():
            if len(best) > k and attempt(best[: len(best) - k]):
                improved = True
            else:
                k //= 2
        # pass 3: zero / lower individual values
        i = 0
        while i < len(best) and budget_left():
            v = best[i]
            if v > 0:
                if attempt(best[:i] + [0] + best[i + 1 :]):
                    improved = True
                else:
                    lo, hi = 0, v  # smallest value that still fails, by bisection
                    while hi - lo > 1 and budget_left():
                        mid = (lo + hi) // 2
                        if i < len(best) and attempt(best[:i] + [mid] + best[i + 1 :]):
                            hi = mid
                            improved = True
                        else:
                            lo = mid
            i += 1
    return best, execs


def _perf() -> float:
    return _time.perf_counter()
