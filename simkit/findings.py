"""known_findings.json matcher.  The file is read-only at run time.

Entry forms:
  {"status": "known", "property": "C46", "inv": "...", "sig": "...", "what": "..."}
  {"status": "fixed", "property": "C46", "commit": "<sha>", "sig": "...", "what": "..."}   (suppresses nothing)
"""

from __future__ import annotations

import json
import os

HOME = os.path.dirname(os.path.dirname(os.path.abspath(__file__)))
PATH = os.path.join(HOME, "known_findings.json")


def load() -> list:
    if not os.path.exists(PATH):
        return []
    with open(PATH) as f:
        return json.load(f).get("findings", [])


def match(known: list, prop: str, inv: str, sig: str):
    for k in known:
        if k.get("status") != "known":
            continue
        if k.get("property") == prop and k.get("sig") == sig and k.get("inv", inv) == inv:
            return k
    return None
