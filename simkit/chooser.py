"""The single source of nondeterminism of a simulated run.

Every decision of a run (generated operation, argument, fault, crash point) is an
integer obtained from :meth:`Chooser.draw`.  In *generation* mode the integers come
from ``random.Random(H(seed, property, workload, run_index))`` and are recorded; in
*replay* mode a recorded sequence is fed back (clamped to the admissible range;
exhausted => 0, i.e. the simplest choice).  A replay file is therefore a pure
function of (choice sequence, code).

Spans mark which slice of the sequence belongs to which generated operation / fault
decision so that the shrinker can delete whole operations.

Nothing in this module reads a clock or any other ambient state.
"""

from __future__ import annotations

import hashlib
import random
from typing import Optional, Sequence


def stream_seed(seed: int, prop: str, workload: str, index: int) -> int:
    """Seed of the PRNG of one run: independent of worker count and chunking."""
    h = hashlib.sha256(f"{seed}|{prop}|{workload}|{index}".encode()).digest()
    return int.from_bytes(h[:8], "big")


class Chooser:
    __slots__ = ("_rng", "_replay", "_pos", "rec", "spans", "_open")

    def __init__(
        self, seed: Optional[int] = None, replay: Optional[Sequence[int]] = None
    ) -> None:
        if replay is None:
            self._rng = random.Random(seed)
            self._replay = None
        else:
            self._rng = None
            self._replay = list(replay)
        self._pos = 0
        self.rec: list[int] = []
        self.spans: list[tuple[int, int, str, int]] = []  # (start, end, label, depth)
        self._open: list[tuple[int, str]] = []

    # -- core -----------------------------------------------------------------
    def draw(self, n: int) -> int:
        """Integer in [0, n). Smaller is 'simpler'."""
        if n <= 1:
            return 0
        if self._replay is None:
            v = self._rng.randrange(n)
        else:
            if self._pos < len(self._replay):
                v = self._replay[self._pos]
                if v >= n:
                    v = n - 1
                elif v < 0:
                    v = 0
            else:
                v = 0
            self._pos += 1
        self.rec.append(v)
        return v

    # -- conveniences (all defined through draw) ---------------------------------
    def rng(self, lo: int, hi: int) -> int:
        """Integer in [lo, hi] inclusive."""
        return lo + self.draw(hi - lo + 1)

    def choice(self, seq):
        return seq[self.draw(len(seq))]

    def flag(self, num: int = 1, den: int = 2) -> bool:
        """True with probability num/den; False is the simple choice."""
        return self.draw(den) >= den - num

    def weighted(self, weights: Sequence[int]) -> int:
        """Index i with probability weights[i]/sum. Index 0 is simplest."""
        tot = 0
        for w in weights:
            tot += w
        v = self.draw(tot)
        acc = 0
        for i, w in enumerate(weights):
            acc += w
            if v < acc:
                return i
        return len(weights) - 1

    def unit(self, bits: int = 30) -> float:
        """Float in [0,1) with ``bits`` random bits."""
        return self.draw(1 << bits) / float(1 << bits)

    def subset(self, seq, min_size: int = 0):
        out = [x for x in seq if self.flag()]
        while len(out) < min_size and len(out) < len(seq):
            rest = [x for x in seq if x not in out]
            out.append(self.choice(rest))
        return out

    def shuffle(self, seq) -> list:
        seq = list(seq)
        out = []
        while seq:
            out.append(seq.pop(self.draw(len(seq))))
        return out

    # -- spans ------------------------------------------------------------------
    def begin(self, label: str) -> None:
        self._open.append((len(self.rec), label))

    def end(self) -> None:
        start, label = self._open.pop()
        self.spans.append((start, len(self.rec), label, len(self._open)))

    class _Span:
        __slots__ = ("ch",)

        def __init__(self, ch):
            self.ch = ch

        def __enter__(self):
            return self.ch

        def __exit__(self, *exc):
            self.ch.end()
            return False

    def span(self, label: str) -> "Chooser._Span":
        self.begin(label)
        return Chooser._Span(self)

    def close_spans(self) -> None:
        """Close spans left open by an exception."""
        while self._open:
            self.end()
