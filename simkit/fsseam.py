"""File seam: a context-managed interposer on ``builtins.open`` / ``io.open`` (and numpy's
captured opener) that is active only while a run executes and only for paths below the
run's scratch root.  Everything else passes through untouched.

Every seam *crossing* (open, each write call, close) of a file under the root is
numbered.  A ``FaultPlan`` decides per crossing:

* ``io-error``   raise ``OSError(errno)`` from that open/write,
* ``crash``      the simulated process dies *here*: every file currently open for
                 writing keeps the bytes written so far, except that the file in whose
                 crossing the crash fires may be *torn* (truncated at a drawn offset
                 <= bytes written, modelling Python's unflushed buffer); then
                 ``SimCrash`` (a BaseException no porepy ``except`` clause can swallow)
                 unwinds the run.  Closed files stay intact: the model is a process
                 crash, not power loss (porepy never fsyncs).

The plan is fixed before the operation starts (drawn from the chooser by the caller), so
the interposer itself never draws and never reads a clock.
"""

from __future__ import annotations

import builtins
import errno as _errno
import io
import os
from typing import Optional


class SimCrash(BaseException):
    """The simulated process died at a seam crossing."""


class FaultPlan:
    """What happens at which crossing (1-based, counted over the lifetime of the seam)."""

    def __init__(self):
        self.io_error_at: dict = {}  # crossing -> errno
        self.crash_at: Optional[int] = None
        self.torn_fraction: Optional[float] = None  # None = keep all bytes written; else keep floor(f * written)
        self.only_kinds = None  # restrict faults to crossings of these kinds

    def clear(self):
        self.io_error_at.clear()
        self.crash_at = None
        self.torn_fraction = None


class _WFile:
    """Proxy around a real file opened for writing under the scratch root."""

    def __init__(self, seam, real, path, binary):
        self._seam = seam
        self._real = real
        self._path = path
        self._binary = binary
        self._written = 0
        self._closed = False
        seam.open_writers.append(self)

    # file protocol -----------------------------------------------------------------
    def write(self, data):
        self._seam.crossing("write", self._path, self)
        n = self._real.write(data)
        self._written += len(data)
        return n

    def writelines(self, lines):
        for ln in lines:
            self.write(ln)

    def close(self):
        if self._closed:
            return
        self._seam.crossing("close", self._path, self)
        self._closed = True
        if self in self._seam.open_writers:
            self._seam.open_writers.remove(self)
        self._real.close()

    def flush(self):
        self._real.flush()

    def __enter__(self):
        return self

    def __exit__(self, et, ev, tb):
        if et is not None and issubclass(et, SimCrash):
            return False  # already handled by the crash
        self.close()
        return False

    def __getattr__(self, name):
        return getattr(self._real, name)

    def __iter__(self):
        return iter(self._real)

    # crash handling -----------------------------------------------------------------
    def _freeze(self, torn_fraction):
        """Process death: bytes handed to write() so far reach the file, possibly torn."""
        try:
            self._real.flush()
            if torn_fraction is not None:
                size = self._real.tell() if not self._binary else self._real.tell()
                keep = int(size * torn_fraction)
                self._real.truncate(keep)
            self._real.close()
        except Exception:  # noqa: BLE001
            pass
        self._closed = True


class FsSeam:
    def __init__(self, root: str, trace=None):
        self.root = os.path.realpath(root)
        self.trace = trace
        self.plan = FaultPlan()
        self.n = 0  # crossings so far
        self.log: list = []  # (n, kind, relpath)
        self.open_writers: list = []
        self.fired: list = []
        self._saved = None

    # ------------------------------------------------------------------------------
    def _under_root(self, file) -> Optional[str]:
        if isinstance(file, int):
            return None
        try:
            p = os.fspath(file)
        except TypeError:
            return None
        if isinstance(p, bytes):
            p = p.decode()
        ap = os.path.realpath(p if os.path.isabs(p) else os.path.join(os.getcwd(), p))
        if ap == self.root or ap.startswith(self.root + os.sep):
            return os.path.relpath(ap, self.root)
        return None

    def crossing(self, kind: str, rel: str, wfile=None):
        self.n += 1
        self.log.append((self.n, kind, rel))
        plan = self.plan
        if plan.crash_at is not None and self.n == plan.crash_at:
            self.fired.append(("crash", self.n, kind, rel))
            # the file being crossed may be torn, all other open writers keep what they have
            for w in list(self.open_writers):
                w._freeze(plan.torn_fraction if w is wfile else None)
            self.open_writers.clear()
            plan.crash_at = None
            raise SimCrash(f"crash at crossing {self.n} ({kind} {rel})")
        if self.n in plan.io_error_at and kind in ("open", "write"):
            code = plan.io_error_at.pop(self.n)
            self.fired.append(("io-error", self.n, kind, rel, code))
            raise OSError(code, os.strerror(code), rel)

    def _open(self, real_open):
        seam = self

        def opener(file, mode="r", *args, **kwargs):
            rel = seam._under_root(file)
            if rel is None:
                return real_open(file, mode, *args, **kwargs)
            writing = any(c in mode for c in "wax+")
            seam.crossing("open" if writing else "open-read", rel)
            f = real_open(file, mode, *args, **kwargs)
            if writing:
                return _WFile(seam, f, rel, "b" in mode)
            return f

        return opener

    def __enter__(self):
        import numpy as np

        self._saved = (builtins.open, io.open)
        wrapped = self._open(self._saved[0])
        builtins.open = wrapped
        io.open = wrapped
        # numpy captures io.open in its datasource opener table (used by savetxt/loadtxt/genfromtxt)
        self._np_saved = None
        try:
            from numpy.lib import _datasource as _ds

            _ds._file_openers._load()
            self._np_saved = (_ds._file_openers, _ds._file_openers._file_openers.get(None))
            _ds._file_openers._file_openers[None] = wrapped
        except Exception:  # noqa: BLE001
            self._np_saved = None
        return self

    def __exit__(self, *exc):
        builtins.open, io.open = self._saved
        if self._np_saved is not None:
            self._np_saved[0]._file_openers[None] = self._np_saved[1]
        for w in list(self.open_writers):
            try:
                w._real.close()
            except Exception:  # noqa: BLE001
                pass
        self.open_writers.clear()
        return False

    # helpers -------------------------------------------------------------------------
    def arm_io_error(self, at_crossing: int, code: int = _errno.ENOSPC):
        self.plan.io_error_at[at_crossing] = code

    def arm_crash(self, at_crossing: int, torn_fraction: Optional[float] = None):
        self.plan.crash_at = at_crossing
        self.plan.torn_fraction = torn_fraction
