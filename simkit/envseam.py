"""Pinning of process-global state that would otherwise break replay.

* the four id counters of porepy (grid ids drive the sort order of md-grids),
* ``time.time`` (only used for log messages in porepy) -> simulated monotone counter,
* current working directory -> the run's scratch root (cwd-relative default names),
* warnings / logging noise.

``pin()`` is called at the start of *every* run; ``scratch()`` gives a per-run
directory on tmpfs that is removed when the run ends.
"""

from __future__ import annotations

import itertools
import logging
import os
import shutil
import tempfile
import time as _time
import warnings
from contextlib import contextmanager

_REAL_TIME = _time.time
_sim_clock = [0.0]


def _sim_time() -> float:
    _sim_clock[0] += 1e-3
    return _sim_clock[0]


_HOME = os.path.dirname(os.path.dirname(os.path.abspath(__file__)))


def pin() -> None:
    import porepy as pp

    pp.Grid._counter = itertools.count(0)
    pp.MortarGrid._counter = itertools.count(0)
    pp.BoundaryGrid._counter = itertools.count(0)
    pp.ad.Variable._ids = itertools.count(0)
    _sim_clock[0] = 0.0
    _time.time = _sim_time
    warnings.simplefilter("ignore")
    logging.disable(logging.CRITICAL)


def unpin() -> None:
    _time.time = _REAL_TIME


def _tmp_base() -> str:
    base = os.environ.get("VERIF_SCRATCH")
    if base and os.path.isdir(base):
        return base
    if os.path.isdir("/dev/shm") and os.access("/dev/shm", os.W_OK):
        return "/dev/shm"
    return tempfile.gettempdir()


@contextmanager
def scratch(keep: bool = False):
    """Per-run scratch root; cwd is moved there for the duration of the run."""
    root = tempfile.mkdtemp(prefix="pverif-", dir=_tmp_base())
    old = os.getcwd()
    os.chdir(root)
    try:
        yield root
    finally:
        try:
            os.chdir(old)
        except OSError:
            os.chdir(_HOME)
        if not keep:
            shutil.rmtree(root, ignore_errors=True)


def prime_numba() -> None:
    """Compile (or load from the on-disk cache) porepy's numba-jitted helpers once in the parent process.

    Forked workers then inherit the compiled module-level dispatchers and find a complete disk cache for the
    function-local ones, instead of 16 processes compiling and writing the same cache files concurrently (observed:
    minute-long stalls and spurious exceptions when a source file - and with it its numba cache - had just changed).
    """
    import numpy as np
    import scipy.sparse as sps

    import porepy as pp

    for job in (
        lambda: pp.array_operations.uniquify_point_set(np.array([[0.0, 1.0, 0.0], [0.0, 0.0, 0.0], [0.0, 0.0, 0.0]]), 1e-8),
        lambda: pp.Exporter(pp.CartGrid([2, 2]), "prime"),
        lambda: pp.Exporter(pp.CartGrid([1, 1, 1]), "prime"),
        lambda: pp.matrix_operations.invert_diagonal_blocks(sps.identity(4, format="csr"), np.array([2, 2], dtype=np.int64), method="numba"),
        lambda: pp.meshing.cart_grid([np.array([[0, 2], [1, 1]]), np.array([[1, 1], [0, 2]])], [2, 2]),
        # 3-d fracture splitting goes through networkx.Graph(<sparse matrix>), whose first call imports pandas (seconds,
        # much more under load): done once here, inherited by the forked workers
        lambda: pp.meshing.cart_grid([np.array([[1, 1, 1, 1], [0, 2, 2, 0], [0, 0, 2, 2]]), np.array([[0, 2, 2, 0], [1, 1, 1, 1], [0, 0, 2, 2]])], [2, 2, 2]),
    ):
        try:
            job()
        except Exception:  # noqa: BLE001  priming is best effort
            pass
