"""Pinning of process-global state that would otherwise break replay.

* the four id counters of porepy (grid ids drive the sort order of md-grids),
* ``time.time`` (only used for log messages in porepy) -> simulated monotone counter,
* current working directory -> the run's scratch root (cwd-relative default names),
* warnings / logging noise.

``pin()`` is called at the start of *every* run; ``scratch()`` gives a per-run
directory on tmpfs that is removed when the run ends.
"""

from __future__ import annotations

import itertools
import logging
import os
import shutil
import tempfile
import time as _time
import warnings
from contextlib import contextmanager

_REAL_TIME = _time.time
_sim_clock = [0.0]


def _sim_time() -> float:
    _sim_clock[0] += 1e-3
    return _sim_clock[0]


_HOME = os.path.dirname(os.path.dirname(os.path.abspath(__file__)))


def pin() -> None:
    import porepy as pp

    pp.Grid._counter = itertools.count(0)
    pp.MortarGrid._counter = itertools.count(0)
    pp.BoundaryGrid._counter = itertools.count(0)
    pp.ad.Variable._ids = itertools.count(0)
    _sim_clock[0] = 0.0
    _time.time = _sim_time
    warnings.simplefilter("ignore")
    logging.disable(logging.CRITICAL)


def unpin() -> None:
    _time.time = _REAL_TIME


def _tmp_base() -> str:
    base = os.environ.get("VERIF_SCRATCH")
    if base and os.path.isdir(base):
        return base
    if os.path.isdir("/dev/shm") and os.access("/dev/shm", os.W_OK):
        return "/dev/shm"
    return tempfile.gettempdir()


@contextmanager
def scratch(keep: bool = False):
    """Per-run scratch root; cwd is moved there for the duration of the run."""
    root = tempfile.mkdtemp(prefix="pverif-", dir=_tmp_base())
    old = os.getcwd()
    os.chdir(root)
    try:
        yield root
    finally:
        try:
            os.chdir(old)
        except OSError:
            os.chdir(_HOME)
        if not keep:
            shutil.rmtree(root, ignore_errors=True)
