"""Event log of one simulated run.

``Trace`` never draws from the chooser and never reads a clock; it records only
values handed to it.  The digest over the event list is the determinism witness:
the same (choice sequence, code) must give the same digest in any process.
"""

from __future__ import annotations

import hashlib
from collections import Counter


class Violation(Exception):
    """A property invariant failed on the real code.

    ``inv``  name of the invariant (one per clause of a property),
    ``sig``  finding signature: a short, stable string naming the *cause class* of
             the violation, used to match against known_findings.json and to keep the
             shrinker from sliding into another bug.  Defaults to ``inv``.
    """

    def __init__(self, inv: str, msg: str, sig: str | None = None, prop: str | None = None):
        super().__init__(f"{inv}: {msg}")
        self.inv = inv
        self.msg = msg
        self.sig = sig or inv
        self.prop = prop  # owning property (attribution rule); None = the module's own


class Trace:
    __slots__ = (
        "events",
        "ops",
        "faults",
        "probes",
        "states",
        "transitions",
        "_prev_state",
        "fp",
        "n_state_changing",
        "sim_time",
        "sim_steps",
        "foreign",
    )

    def __init__(self) -> None:
        self.events: list = []
        self.ops: Counter = Counter()  # "kind/outcome" -> n
        self.faults: Counter = Counter()  # fault kind -> times *fired*
        self.probes: Counter = Counter()  # rare-condition probes
        self.states: set = set()
        self.transitions: set = set()
        self._prev_state = None
        self.fp: list = []  # fingerprint sequence (op kind, outcome)
        self.n_state_changing = 0
        self.sim_time = 0.0
        self.sim_steps = 0
        self.foreign: Counter = Counter()  # invariants of other properties that tripped

    # ---------------------------------------------------------------------
    def emit(self, *event) -> None:
        self.events.append(event)

    def op(self, kind: str, outcome: str = "ok", *details, changing: bool = True) -> None:
        """Record one executed operation with its outcome."""
        self.events.append(("op", kind, outcome) + details)
        self.ops[kind + "/" + outcome] += 1
        self.fp.append((kind, outcome))
        if changing and outcome == "ok":
            self.n_state_changing += 1

    def fault(self, kind: str, *details) -> None:
        """Record a fault that actually fired."""
        self.events.append(("fault", kind) + details)
        self.faults[kind] += 1
        self.fp.append(("fault", kind))

    def probe(self, name: str) -> None:
        self.probes[name] += 1

    def state(self, key) -> None:
        self.states.add(key)
        if self._prev_state is not None:
            self.transitions.add((self._prev_state, key))
        self._prev_state = key

    # ---------------------------------------------------------------------
    def digest(self) -> str:
        h = hashlib.sha256()
        for e in self.events:
            h.update(repr(e).encode())
            h.update(b"\n")
        return h.hexdigest()

    def fingerprint(self) -> int:
        h = hashlib.blake2b(repr(self.fp).encode(), digest_size=8).digest()
        return int.from_bytes(h, "big")

    def nontrivial(self) -> bool:
        return self.n_state_changing >= 3 or sum(self.faults.values()) >= 1
