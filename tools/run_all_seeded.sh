#!/bin/bash
# usage: tools/run_all_seeded.sh [ID-prefix ...]   -- every stored seeded change against its property's quick check
# (scratch copies of /repo/src, nothing in /repo is touched); prints one line per change, exit 0 iff all are caught.
cd "$(dirname "$0")/.."
bad=0
for d in seeded/*/; do
  id=$(basename $d); P=${id%-*}
  if [ $# -gt 0 ]; then m=0; for a in "$@"; do [[ $id == $a* ]] && m=1; done; [ $m = 1 ] || continue; fi
  if grep -q neutralised_by_fix $d/meta.json; then echo "$id: skipped (neutralised by a later repair, see meta.json)"; continue; fi
  out=$(tools/try_seeded2.sh $P $d 2>&1)
  demo=$(echo "$out" | grep -o "demo clean rc=[0-9]* patched rc=[0-9]*")
  rc=$(echo "$out" | grep -o "check $P rc=[0-9]*")
  inv=$(echo "$out" | grep -m1 "^violation:" | grep -o "inv=[a-z_0-9]*")
  echo "$id: $demo; $rc $inv"
  [[ "$rc" == "check $P rc=1" ]] || bad=1
done
exit $bad
