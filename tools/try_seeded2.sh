#!/bin/bash
# usage: tools/try_seeded2.sh <PROP> <dir-with-patch.diff-and-demo.py> [check args...]
# Like try_seeded.sh but never touches /repo: the patch is applied to a scratch copy of /repo/src under /dev/shm and
# the check is pointed at it (VERIF_POREPY_SRC), so background runs against /repo are not disturbed.
# 1) demo on the clean copy must exit 0, on the patched copy exit 1; 2) the property's check runs against the patched copy.
HERE="$(cd "$(dirname "$0")/.." && pwd)"
P=$1; D=$(realpath $2); shift 2
S=$(mktemp -d /dev/shm/pverif-seed-XXXX)
cp -rp /repo/src $S/src
( cd $S && PYTHONPATH=$S/src timeout 900 /venv/bin/python $D/demo.py > $S/demo_clean.log 2>&1 ); rc_clean=$?
( cd $S && patch -p1 -s --no-backup-if-mismatch < $D/patch.diff ) || { echo "PATCH-DOES-NOT-APPLY"; rm -rf $S; exit 9; }
( cd $S && PYTHONPATH=$S/src timeout 900 /venv/bin/python $D/demo.py > $S/demo_patched.log 2>&1 ); rc_patched=$?
echo "demo clean rc=$rc_clean patched rc=$rc_patched ($(grep -v '^$' $S/demo_patched.log | tail -1 | cut -c1-200))"
cd $HERE && VERIF_POREPY_SRC=$S/src ./check $P --no-evidence "$@" > $S/check.log 2>&1; rc=$?
echo "check $P rc=$rc"
grep "^violation\|^VIOLATION\|^HARNESS\|^\[" $S/check.log | cut -c1-400 | head -8
rm -rf $S $HERE/replays/$P
