"""Regenerates MANIFEST.json from the property modules that exist (run with /venv/bin/python)."""
import importlib, json, os, sys
HOME = os.path.dirname(os.path.dirname(os.path.abspath(__file__)))
sys.path.insert(0, HOME)

NA = {
 "C01": "pure arithmetic of AdArray values/Jacobians: a function of the expression and evaluation point; no schedule, clock, fault, crash point or call history enters the statement",
 "C02": "pure evaluation of an operator tree against a given state; its one history-flavoured clause (previous time step/iterate leaves read stored values) is storage behaviour decided under C08/C10",
 "C03": "Jacobian vs. directional derivative of the residual at a state: pure function of the input state",
 "C04": "algebraic conservation identity at an arbitrary state: pure",
 "C06": "slicing identity of a single assembly call; no operation history enters the claim",
 "C07": "algebraic identity of one Schur reduction; cached blocks are documented single-assembly state, changing splits are out of contract",
 "C11": "consistency/exactness of a discretization matrix for a given grid, tensor and boundary assignment: pure",
 "C12": "as C11: pure function of grid/tensor/boundary input",
 "C13": "as C11: pure function of grid/tensor/boundary input",
 "C14": "equality of matrices across partition counts/partial updates/inverter back ends: configuration sweep of a pure function; numba prange inside has no controllable seam",
 "C15": "as C11: pure function of grid/tensor/boundary input",
 "C16": "as C11: pure function of grid/tensor/boundary input",
 "C17": "upwind selection and one explicit transport step: pure given the flux field",
 "C18": "as C11: pure function of grid/tensor/boundary input",
 "C19": "geometry/topology identity of a constructed grid: pure",
 "C20": "geometry/topology identity of a constructed grid: pure",
 "C21": "geometry/topology identity of a constructed grid: pure",
 "C22": "geometry/topology identity of a constructed grid: pure",
 "C23": "geometry/topology identity of a constructed grid: pure",
 "C25": "geometric conformity of the mesher's output: pure given the fracture network",
 "C27": "projection-matrix identities for a given grid list: pure",
 "C28": "computational-geometry function vs. exact oracle: pure",
 "C29": "computational-geometry function vs. exact oracle: pure",
 "C30": "computational-geometry function vs. exact oracle: pure",
 "C31": "computational-geometry function vs. exact oracle: pure",
 "C32": "computational-geometry function vs. exact oracle: pure",
 "C33": "computational-geometry function vs. exact oracle: pure",
 "C34": "array/sparse-matrix utility vs. dense semantics: pure",
 "C35": "array/sparse-matrix utility vs. dense semantics: pure",
 "C36": "array/sparse-matrix utility vs. dense semantics: pure",
 "C37": "block inversion is pure; its only concurrency is numba prange over disjoint blocks in nopython code, which no Python-level scheduler can interleave deterministically",
 "C39": "constructor of boundary-condition objects: pure",
 "C40": "constructor of tensor objects: pure",
 "C42": "saturation/fraction algebra: pure (numba-parallel loops as for C37)",
 "C43": "unit conversion algebra and a scaled-vs-unscaled model run: configuration comparison without time-, fault- or order-dependence",
 "C44": "computational-geometry function vs. exact oracle: pure",
 "C45": "structural hashing of operator trees: pure within a process",
}
ALL = [f"C{i:02d}" for i in range(1, 48)]
BASE = "cd /repo && /venv/bin/python -m pytest -ra -q -p no:cacheprovider --timeout=900 --continue-on-collection-errors"

checks, na = [], []
for pid in ALL:
    if pid in NA:
        na.append({"property_id": pid, "reason": "not applicable to deterministic simulation: " + NA[pid]})
        continue
    try:
        mod = importlib.import_module(f"props.{pid}")
    except ModuleNotFoundError:
        na.append({"property_id": pid, "reason": "simulation target (DESIGN.md section 5) but its check is not built yet; not claimed until it is"})
        continue
    m = mod.MANIFEST
    checks.append({
        "property_id": pid,
        "quick_cmd": f"./check {pid} --tier quick",
        "thorough_cmd": f"./check {pid} --tier thorough",
        "evidence_file": f"/verif/evidence/{pid}.json",
        "replay_cmd_template": f"./check {pid} --replay {{path}}",
        "engine": m["engine"],
        "level_claimed": {"category": mod.LEVEL, "text": m["level_text"], "design_ref": m["design_ref"]},
        "level_note": m["level_note"],
        "technique": m["technique"],
    })

man = {
 "version": 1,
 "setup_cmd": "./setup.sh",
 "hooks": {
   "guard": "POREPY_VERIF",
   "enable": "no source hooks exist: every seam is a subclass override, a constructor argument, params['nonlinear_solver'], a module attribute or builtins.open inside a context manager, installed by the harness at run time; checks import porepy from /repo/src (editable install) so they always run the current working tree",
   "baseline_off_cmd": BASE,
   "source_commits": [],
   "add_only": True,
 },
 "engines": [
   {"name": "tm_sim", "path": "props/C09.py", "serves_properties": ["C09"], "kind_free_text": "Engine A0: real TimeManager under a stub of the driver protocol; environment (converged in k / failed) drawn from the seeded chooser"},
   {"name": "driver_sim", "path": "engines/driver_sim.py", "serves_properties": ["C09", "C10", "C08", "C38"], "kind_free_text": "Engine A: real run_time_dependent_model + NewtonSolver + SolutionStrategy + TimeManager + EquationSystem + flow physics; injected solver faults, exports, crashes, restarts"},
   {"name": "history", "path": "engines/history.py", "serves_properties": ["C05", "C08", "C24", "C26", "C41", "C46", "C47", "C38"], "kind_free_text": "Engine B: seeded operation-history machines stepping the real object and a reference model in lock-step"},
   {"name": "simkit", "path": "simkit/", "serves_properties": [c["property_id"] for c in checks], "kind_free_text": "kernel: choice-sequence chooser (one integer decides everything), trace digests, fork pool runner, shrinker, replay, findings matcher, evidence writer, env and file seams"},
 ],
 "checks": checks,
 "not_applicable": na,
 "notes": "Technique family: deterministic simulation with fault injection. exit 0 = held (KNOWN-FINDING lines possible), 1 = VIOLATION line with replay file, 2 = HARNESS-ERROR (never folded into 0/1). See DESIGN.md.",
}
json.dump(man, open(os.path.join(HOME, "MANIFEST.json"), "w"), indent=1)
print("checks:", [c["property_id"] for c in checks], "na:", len(na))
