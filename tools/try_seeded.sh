#!/bin/bash
# usage: tools/try_seeded.sh <PROP> <worktree-seeded-dir> [check args...]
# 1) in the scratch worktree: demo passes clean, fails with the patch; 2) apply to /repo, run the check, revert.
P=$1; D=$2; shift 2
WT=$(dirname $(dirname $D))
cd $WT || exit 9
git checkout -q -- src
PYTHONPATH=$WT/src timeout 900 /venv/bin/python $D/demo.py > /tmp/demo_clean.log 2>&1; rc_clean=$?
git apply $D/patch.diff || { echo "PATCH-DOES-NOT-APPLY in worktree"; exit 9; }
PYTHONPATH=$WT/src timeout 900 /venv/bin/python $D/demo.py > /tmp/demo_patched.log 2>&1; rc_patched=$?
git checkout -q -- src
echo "demo clean rc=$rc_clean patched rc=$rc_patched ($(tail -1 /tmp/demo_patched.log | cut -c1-160))"
cd /repo && git apply $D/patch.diff || { echo "PATCH-DOES-NOT-APPLY in /repo"; exit 9; }
cd /verif && ./check $P --no-evidence "$@" > /tmp/seeded_check.log 2>&1; rc=$?
git -C /repo checkout -q -- .
echo "check $P rc=$rc"
grep "^violation\|^VIOLATION\|^HARNESS\|^\[" /tmp/seeded_check.log | cut -c1-330 | head -8
rm -rf /verif/replays/$P
