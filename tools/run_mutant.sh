#!/bin/bash
# usage: tools/run_mutant.sh <PROP> <mutant-name> [extra check args]   -- applies one self-test mutant to a scratch copy and runs the check
P=$1; M=$2; shift 2
D=$(mktemp -d /dev/shm/pverif-mt-XXXX)
cp -rp /repo/src $D/src
cd /verif && /venv/bin/python - "$D/src" "$P" "$M" <<'PY'
import sys; sys.path.insert(0,'/verif')
from selftest.selftests import _apply_mutation
from selftest.mutants import MUTANTS
m=[x for x in MUTANTS[sys.argv[2]] if x['name']==sys.argv[3]][0]
_apply_mutation(sys.argv[1], m)
PY
VERIF_POREPY_SRC=$D/src ./check $P --no-evidence "$@"; if [ -n "$MUT_AGAIN" ]; then VERIF_POREPY_SRC=$D/src ./check $P --no-evidence "$@"; fi
rc=$?
rm -rf $D
exit $rc
