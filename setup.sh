#!/bin/bash
# Offline setup: nothing to build. Verifies the interpreter, porepy (editable install of /repo/src) and
# installs hypothesis/jsonschema from the local wheelhouse only if they are missing.
set -e
cd "$(dirname "$0")"
export PIP_NO_INDEX=1
/venv/bin/python - <<'PY'
import sys, importlib
import porepy, numpy, scipy
print("porepy from", porepy.__file__)
PY
/venv/bin/python -c "import jsonschema" 2>/dev/null || /venv/bin/pip install --no-index --find-links /opt/veriftools/wheels jsonschema >/dev/null 2>&1 || true
mkdir -p evidence replays
echo setup-ok
