"""Self-tests of the machinery itself.

determinism : for each property, N seeds executed in separate fresh interpreters —
              twice identically, once under another PYTHONHASHSEED, once with another
              worker count, once from another cwd; per-run event-log digests must agree.
sensitivity : for each property, apply small source mutations to a scratch copy of
              /repo/src (under /dev/shm), point the check at it and require a VIOLATION
              (exit 1) within the quick budget; the unmutated copy must exit 0.
"""

from __future__ import annotations

import importlib
import json
import os
import shutil
import subprocess
import sys
import tempfile

HOME = os.path.dirname(os.path.dirname(os.path.abspath(__file__)))
CHECK = os.path.join(HOME, "check")
ALL = ["C05", "C08", "C09", "C10", "C24", "C26", "C38", "C41", "C46", "C47"]


def _have(pid: str) -> bool:
    return os.path.exists(os.path.join(HOME, "props", f"{pid}.py"))


def _digests(pid: str, runs: int, env_extra: dict, workers: int, cwd: str = HOME):
    env = dict(os.environ)
    env.update(env_extra)
    p = subprocess.run(
        [CHECK, pid, "--runs", str(runs), "--digests", "--no-evidence", "--workers", str(workers)],
        capture_output=True, text=True, env=env, cwd=cwd, timeout=3600,
    )
    d = {}
    for ln in p.stdout.splitlines():
        if ln.startswith("DIGEST "):
            _, i, h = ln.split()
            d.setdefault(int(i), []).append(h)
    return p.returncode, d, p.stdout[-1500:] + p.stderr[-1500:]


def determinism(ids) -> int:
    bad = 0
    for pid in ids:
        mod = importlib.import_module(f"props.{pid}")
        runs = getattr(mod, "DETERMINISM_RUNS", 200)
        seed = os.environ.get("VERIF_SEED", "0")
        base = _digests(pid, runs, {"VERIF_SEED": seed}, 16)
        variants = {
            "same-again": _digests(pid, runs, {"VERIF_SEED": seed}, 16),
            "hashseed-12345": _digests(pid, runs, {"VERIF_SEED": seed, "VERIF_HASHSEED": "12345"}, 16),
            "workers-3": _digests(pid, runs, {"VERIF_SEED": seed}, 3),
            "cwd-/": _digests(pid, runs, {"VERIF_SEED": seed}, 5, cwd="/"),
            "reverse-order": _digests(pid, runs, {"VERIF_SEED": seed, "VERIF_REVERSE": "1"}, 7),
        }
        n = sum(len(v) for v in base[1].values())
        ok = n > 0 and base[0] in (0, 1)
        for name, (rc, d, tail) in variants.items():
            if d != base[1] or rc != base[0]:
                ok = False
                diff = [i for i in base[1] if d.get(i) != base[1][i]]
                print(f"DETERMINISM-FAIL {pid} variant={name} rc={rc} vs {base[0]} differing_runs={diff[:10]} ({len(diff)})")
                if not d:
                    print(tail)
        print(f"determinism {pid}: {'ok' if ok else 'FAIL'} ({n} run digests x 6 executions, base rc={base[0]})")
        if not ok and n == 0:
            print(base[2])
        bad += 0 if ok else 1
    return 0 if bad == 0 else 2


# --------------------------------------------------------------------------------------
def _apply_mutation(src_root: str, mut: dict) -> None:
    if "edits" in mut:
        for e in mut["edits"]:
            _apply_mutation(src_root, dict(e, name=mut["name"]))
        return
    path = os.path.join(src_root, mut["file"])
    with open(path) as f:
        s = f.read()
    if s.count(mut["old"]) < 1:
        raise RuntimeError(f"mutation {mut['name']}: pattern not found in {mut['file']}")
    s = s.replace(mut["old"], mut["new"], mut.get("count", 1))
    with open(path, "w") as f:
        f.write(s)


def sensitivity(ids) -> int:
    from selftest.mutants import MUTANTS

    base = "/dev/shm" if os.access("/dev/shm", os.W_OK) else tempfile.gettempdir()
    bad = 0
    results = []
    for pid in ids:
        for mut in MUTANTS.get(pid, []):
            root = tempfile.mkdtemp(prefix="pverif-mut-", dir=base)
            try:
                shutil.copytree("/repo/src", os.path.join(root, "src"))  # copy2 keeps mtimes, so the numba on-disk cache stays valid for unmutated files
                _apply_mutation(os.path.join(root, "src"), mut)
                env = dict(os.environ)
                env["VERIF_POREPY_SRC"] = os.path.join(root, "src")
                cmd = [CHECK, pid, "--tier", "quick", "--no-evidence"]
                if mut.get("runs"):
                    cmd += ["--runs", str(mut["runs"])]
                if mut.get("only"):
                    cmd += ["--only", mut["only"]]
                p = subprocess.run(cmd, capture_output=True, text=True, env=env, timeout=3600)
                caught = p.returncode == 1 and f"VIOLATION property={pid}" in p.stdout
                viol = [ln for ln in p.stdout.splitlines() if ln.startswith("violation:")]
                results.append({"property": pid, "mutant": mut["name"], "caught": caught, "rc": p.returncode, "first": viol[:1]})
                print(f"sensitivity {pid} mutant={mut['name']}: {'CAUGHT' if caught else 'MISSED rc=%d' % p.returncode} {viol[0][:200] if viol else ''}")
                if not caught:
                    bad += 1
                    print(p.stdout[-800:], p.stderr[-800:])
            finally:
                shutil.rmtree(root, ignore_errors=True)
                shutil.rmtree(os.path.join(HOME, "replays", pid), ignore_errors=True)
    with open(os.path.join(HOME, "selftest", "sensitivity_last.json"), "w") as f:
        json.dump(results, f, indent=1)
    return 0 if bad == 0 else 2


def main(which: str, ids) -> int:
    ids = [i for i in (ids or ALL) if _have(i)]
    if which == "determinism":
        return determinism(ids)
    if which == "sensitivity":
        return sensitivity(ids)
    print("unknown selftest", which)
    return 2
