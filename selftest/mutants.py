"""Source mutations for the sensitivity self-test: each still imports and is of the kind
'unit tests would plausibly still pass'.  old/new are exact source substrings."""

TSC = "porepy/numerics/time_step_control.py"

AO = "porepy/utils/array_operations.py"

AU = "porepy/numerics/ad/ad_utils.py"

ES = "porepy/numerics/ad/equation_system.py"

MD = "porepy/grids/md_grid.py"

IT = "porepy/utils/interpolation_tables.py"

TXT = "porepy/utils/txt_io.py"
FN2 = "porepy/fracs/fracture_network_2d.py"
FN3 = "porepy/fracs/fracture_network_3d.py"
FI = "porepy/fracs/fracture_importer.py"

MG = "porepy/grids/mortar_grid.py"
MAT = "porepy/grids/match_grids.py"

SS = "porepy/models/solution_strategy.py"
NL = "porepy/numerics/nonlinear/nonlinear_solvers.py"

EX = "porepy/viz/exporter.py"
DS = "porepy/viz/data_saving_model_mixin.py"
TS = "porepy/numerics/time_step_control.py"

MUTANTS = {
    "C38": [
        {"name": "pvd_continues_stale_file_of_earlier_run", "file": EX, "only": "exporter",
         "old": "        if file_exists and append:\n", "new": "        if file_exists:\n"},
        {"name": "revert_cell_type_regrouping", "file": EX, "old": "                    ordered_value[cell_ids] = value\n", "new": "                    ordered_value[:] = value\n"},
        {"name": "time_step_counter_off_by_one", "file": DS, "old": "        self.exporter._time_step_counter = time_index\n\n    def load_data_from_pvd", "new": "        self.exporter._time_step_counter = time_index + 1\n\n    def load_data_from_pvd"},
        {"name": "restored_time_one_entry_early", "file": TS, "old": "        self.time = self.exported_times[time_index]\n", "new": "        self.time = self.exported_times[time_index - 1]\n"},
        {"name": "restart_step_by_largest_time_stamp", "file": EX,
         "old": "            time_index = max(\n                _index(data[\"file\"])\n                for data in datasets\n                if not _is_constant(data[\"file\"])\n            )",
         "new": "            time_index = _index(max((d for d in datasets if not _is_constant(d[\"file\"])), key=lambda d: float(d[\"timestep\"]))[\"file\"])"},
        {"name": "restart_files_by_time_stamp", "file": EX,
         "old": "                elif _index(data[\"file\"]) == time_index:", "new": "                elif data[\"timestep\"] == restart_timestep_str:"},
        {"name": "time_index_from_time_value", "file": EX,
         "old": "            # Collect all vtu files connected to the identified time step. Constant data",
         "new": "            time_index = int(float(restart_timestep_str))\n            # Collect all vtu files connected to the identified time step. Constant data"},
        {"name": "revert_append_times", "file": DS, "old": "            times = times[len(times) - len(self.exporter._exported_timesteps) :]\n", "new": ""},
        {"name": "exported_dt_logs_dt_init", "file": TS, "old": "            int(self.dt) if isinstance(self.dt, np.integer) else float(self.dt)", "new": "            int(self.dt) if isinstance(self.dt, np.integer) else float(self.dt_init)"},
        {"name": "vector_data_ravel_F", "file": EX, "old": "            return np.ravel(value, \"C\")", "new": "            return np.ravel(value, \"F\")"},
        {"name": "revert_polyhedron_block_order", "file": EX,
         "old": "        for cell_type, cell_block in sorted(\n            cell_to_faces.items(), key=lambda item: int(item[0][len(\"polyhedron\") :])\n        ):",
         "new": "        for cell_type, cell_block in cell_to_faces.items():"},
    ],
    "C10": [
        {"name": "no_iterate_reset_after_failure", "file": SS,
         "old": "            self.equation_system.set_variable_values(prev_solution, iterate_index=0)\n", "new": "            pass\n"},
        {"name": "update_solution_set_before_shift", "file": SS,
         "old": "        self.equation_system.shift_time_step_values(\n            max_index=len(self.time_step_indices)\n        )\n        self.equation_system.set_variable_values(\n            values=solution, time_step_index=0, additive=False\n        )",
         "new": "        self.equation_system.set_variable_values(\n            values=solution, time_step_index=0, additive=False\n        )\n        self.equation_system.shift_time_step_values(\n            max_index=len(self.time_step_indices)\n        )"},
        {"name": "failure_updates_solution", "file": SS,
         "old": "    def after_nonlinear_failure(self) -> None:\n        \"\"\"Method to be called if the non-linear solver fails to converge.\"\"\"\n        self.save_data_time_step()",
         "new": "    def after_nonlinear_failure(self) -> None:\n        \"\"\"Method to be called if the non-linear solver fails to converge.\"\"\"\n        self.update_solution(self.equation_system.get_variable_values(iterate_index=0))\n        self.save_data_time_step()"},
        {"name": "iterate_reset_only_when_nan", "file": SS,
         "old": "            self.equation_system.set_variable_values(prev_solution, iterate_index=0)\n",
         "new": "            if np.any(np.isnan(self.equation_system.get_variable_values(iterate_index=0))):\n                self.equation_system.set_variable_values(prev_solution, iterate_index=0)\n"},
        {"name": "newton_treats_max_iterations_as_converged", "file": NL,
         "old": "        if not is_converged:\n            # If Newton fails",
         "new": "        if not is_converged and not is_diverged:\n            model.after_nonlinear_convergence()\n            return True\n        if not is_converged:\n            # If Newton fails"},
        {"name": "damage_history_variables_windowed", "file": "porepy/models/fracture_damage.py", "only": "driver_mp",
         "old": "        self.equation_system.shift_time_step_values(\n            max_index=None, variables=history_variables\n        )",
         "new": "        self.equation_system.shift_time_step_values(\n            max_index=len(self.time_step_indices) + 1, variables=history_variables\n        )"},
        {"name": "damage_update_solution_skips_other_variables_shift", "file": "porepy/models/fracture_damage.py", "only": "driver_mp",
         "old": "        self.equation_system.shift_time_step_values(\n            max_index=len(self.time_step_indices), variables=other_vars\n        )",
         "new": "        pass"},
        {"name": "shift_iterates_no_depth", "file": SS,
         "old": "        self.equation_system.shift_time_step_values(\n            max_index=len(self.time_step_indices)\n        )",
         "new": "        self.equation_system.shift_time_step_values(max_index=1)"},
    ],
    "C26": [
        {"name": "update_mortar_avg_for_int", "file": MG, "old": "                matrix_int * self._primary_to_mortar_int", "new": "                matrix_avg * self._primary_to_mortar_int"},
        {"name": "update_primary_forgets_set_projections", "file": MG, "old": "        self._set_projections(secondary=False)\n", "new": ""},
        {"name": "update_secondary_forgets_set_projections", "file": MG, "old": "        self._set_projections(primary=False)\n", "new": ""},
        {"name": "revert_unique_faces", "file": MAT, "old": "    faces_on_boundary_old = np.unique(faces_on_boundary_old)\n", "new": ""},
        {"name": "set_projections_swaps_int_avg", "file": MG, "old": "                    self._primary_to_mortar_avg.T\n", "new": "                    self._primary_to_mortar_int.T\n"},
        {"name": "update_secondary_int_uses_avg", "file": MG, "old": "        self._secondary_to_mortar_int = sps.bmat(matrix_int, format=\"csc\")", "new": "        self._secondary_to_mortar_int = sps.bmat(matrix_avg, format=\"csc\")"},
    ],
    "C47": [
        {"name": "revert_ndmin", "file": TXT, "old": "        ndmin=2,\n", "new": ""},
        {"name": "csv2d_append_instead_of_truncate", "file": FN2, "old": "        with open(file_name, \"w\") as csv_file:\n            csv_writer = csv.writer(csv_file, delimiter=\",\")\n            if with_header:", "new": "        with open(file_name, \"a\") as csv_file:\n            csv_writer = csv.writer(csv_file, delimiter=\",\")\n            if with_header:"},
        {"name": "csv3d_ravel_order_C", "file": FN3, "old": "                csv_writer.writerow(f.pts.ravel(order=\"F\"))", "new": "                csv_writer.writerow(f.pts.ravel(order=\"C\"))"},
        {"name": "csv3d_domain_min_max_swapped", "file": FI, "old": "                        \"ymin\": data[1],\n                        \"ymax\": data[4],", "new": "                        \"ymin\": data[1],\n                        \"ymax\": data[5],"},
        {"name": "txt_header_order_reversed", "file": TXT, "old": "    names = header.split()", "new": "    names = header.split()[::-1]"},
        {"name": "csv2d_endpoint_columns_swapped", "file": FN2, "old": "                data.extend(self._pts[:, edge[1]])", "new": "                data.extend(self._pts[::-1, edge[1]])"},
    ],
    "C41": [
        {"name": "cache_coordinates_appended_reversed", "file": IT, "old": "            self._pt = np.hstack((self._pt, coord))", "new": "            self._pt = np.hstack((self._pt, coord[:, ::-1]))"},
        {"name": "gradient_does_not_fill_cache", "file": IT,
         "old": "        if self._function is not None:\n            self._fill_values(x)\n\n        # Use standard method for differentiation.",
         "new": "        # Use standard method for differentiation."},
        {"name": "revert_upper_boundary_fix", "file": IT, "old": "np.minimum(((x_i - low_i) // h_i).astype(int), npt_i - 2)", "new": "((x_i - low_i) // h_i).astype(int)"},
        {"name": "known_points_by_coordinate_only_first_axis", "file": IT,
         "old": "            _, _, exists, _ = pp.array_operations.intersect_sets(coord, self._pt)",
         "new": "            _, _, exists, _ = pp.array_operations.intersect_sets(coord[:1], self._pt[:1])"},
    ],
    "C24": [
        {"name": "removal_keeps_interface_pair_entry", "file": MD, "old": "            del self._interface_data[intf]\n            del self._interface_to_subdomains[intf]", "new": "            del self._interface_data[intf]"},
        {"name": "sort_ascending_dimension", "file": MD, "old": "        for dim in np.arange(self.dim_max(), -1, -1):", "new": "        for dim in np.arange(0, self.dim_max() + 1):"},
        {"name": "sort_descending_id", "file": MD, "old": "            sort_inds_dim: np.ndarray = np.argsort(ids_dim)", "new": "            sort_inds_dim: np.ndarray = np.argsort(ids_dim)[::-1]"},
        {"name": "replace_keeps_old_boundary_grid", "file": MD, "old": "                    self._subdomain_to_boundary_grid[sd_new] = bg_new", "new": "                    self._subdomain_to_boundary_grid[sd_new] = bg_old"},
        {"name": "removal_keeps_boundary_data", "file": MD, "old": "            del self._boundary_grid_data[bg_to_remove]\n", "new": ""},
        {"name": "revert_0d_guard", "file": MD, "old": "        if sd in self._subdomain_to_boundary_grid:\n            bg_to_remove", "new": "        if True:\n            bg_to_remove"},
        {"name": "revert_codim_check_order", "file": MD, "old": "        if np.abs(sd_pair[0].dim - sd_pair[1].dim) >= 3:\n            raise ValueError(\"Can only handle subdomain coupling of co-dimension <= 2\")\n", "new": ""},
    ],
    "C05": [
        {"name": "cluster_interfaces_first", "edits": [
            {"file": ES, "old": "        # 1. Per subdomain, order variables\n        for grid in self.mdg.subdomains():",
             "new": "        # 1. Per subdomain, order variables\n        for grid in self.mdg.interfaces():"},
            {"file": ES, "old": "        # 2. Per interface, order variables\n        for intf in self.mdg.interfaces():",
             "new": "        # 2. Per interface, order variables\n        for intf in self.mdg.subdomains():"}]},
        {"name": "no_recluster_after_removal", "file": ES,
         "old": "            # Update the variable clustering. This also updates _variable_num_dofs.\n            self._cluster_dofs_gridwise()",
         "new": "            # Update the variable clustering. This also updates _variable_num_dofs.\n            pass"},
        {"name": "identify_dof_ge", "file": ES, "old": "np.argmax(global_variable_dofs > dof) - 1", "new": "np.argmax(global_variable_dofs >= dof) - 1"},
        {"name": "get_values_in_creation_order", "file": ES,
         "old": "        for id_ in self._variable_numbers:\n            if id_ in var_ids:",
         "new": "        for id_ in self._variables:\n            if id_ in var_ids:"},
        {"name": "duplicate_name_check_first_grid_only", "file": ES,
         "old": "            if var.name == name and var.domain in grids:",
         "new": "            if var.name == name and var.domain in grids[:1]:"},
    ],
    "C08": [
        {"name": "get_returns_storage", "file": AU, "old": "        value = data[loc][name][index].copy()", "new": "        value = data[loc][name][index]"},
        {"name": "set_stores_argument", "file": AU, "old": "            data[loc][name][index] = values.copy()", "new": "            data[loc][name][index] = values"},
        {"name": "shift_without_copy", "file": AU, "old": "        data[location][name][i] = data[location][name][i - 1].copy()", "new": "        data[location][name][i] = data[location][name][i - 1]"},
        {"name": "shift_skips_index_1", "file": AU, "old": "            range_ = range(max_index - 1, 0, -1)", "new": "            range_ = range(max_index - 1, 1, -1)"},
        {"name": "shift_ascending", "file": AU, "old": "            range_ = range(max_index - 1, 0, -1)", "new": "            range_ = range(1, max_index)"},
        {"name": "additive_empty_silently_sets", "file": AU,
         "old": "                raise ValueError(\n                    f\"Cannot set value additively for {name} at {(loc, index)}:\"\n                    + \" No values stored to add to.\"\n                )\n            data[loc][name][index] += values",
         "new": "                data[loc][name][index] = 0 * values\n            data[loc][name][index] += values"},
    ],
    "C46": [
        {"name": "revert_unique_2_all", "file": AO, "old": "unique_values = values[:, unique_2_all]", "new": "unique_values = values[:, all_2_unique]"},
        {"name": "revert_existing_index_order", "file": AO,
         "old": "        ind = np.array([ind_list[i][0] for i in np.where(is_mem)[0]], dtype=int)\n",
         "new": "        ind = np.unique(np.array([ind_list[i][0] for i in np.where(is_mem)[0]], dtype=int))\n"},
        {"name": "dup_first_wins", "file": AO, "old": "np.where(all_2_unique == i)[0][-1]", "new": "np.where(all_2_unique == i)[0][0]"},
        {"name": "additive_overwrites_existing", "file": AO, "old": "            self._values[:, ind] += unique_values[:, is_mem]", "new": "            self._values[:, ind] = unique_values[:, is_mem]"},
    ],
    "C09": [
        {"name": "no_step_back_S5", "file": TSC,
         "old": "            if self._is_about_to_hit_schedule:  # (S5)\n                self._scheduled_idx -= 1\n",
         "new": "            if False:  # (S5)\n                self._scheduled_idx -= 1\n"},
        {"name": "scale_dt_before_rewind", "file": TSC,
         "old": "            self.time -= self.dt  # (S1)\n            self.time_index -= 1  # (S2)\n            self.dt *= self.recomp_factor  # (S3)\n",
         "new": "            self.dt *= self.recomp_factor  # (S3)\n            self.time -= self.dt  # (S1)\n            self.time_index -= 1  # (S2)\n"},
        {"name": "no_dt_min_correction", "file": TSC,
         "old": "        self._correction_based_on_dt_min()\n        self._correction_based_on_dt_max()\n",
         "new": "        self._correction_based_on_dt_max()\n"},
        {"name": "no_dt_max_correction", "file": TSC,
         "old": "        self._correction_based_on_dt_min()\n        self._correction_based_on_dt_max()\n",
         "new": "        self._correction_based_on_dt_min()\n"},
        {"name": "revert_cursor_fix", "file": TSC,
         "old": "            self._scheduled_idx += 1\n            schedule_time = self.schedule[self._scheduled_idx]\n",
         "new": "            pass\n"},
        {"name": "budget_off_by_one", "file": TSC,
         "old": "        if self._recomp_num < self.recomp_max:",
         "new": "        if self._recomp_num < self.recomp_max - 1:"},
    ],
}
